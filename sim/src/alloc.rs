//! Counting allocator (per-thread current / peak heap bytes) for the "allocates without bound" clause of C10.
use std::alloc::{GlobalAlloc, Layout, System};
use std::cell::Cell;

thread_local! {
    static CUR: Cell<usize> = const { Cell::new(0) };
    static PEAK: Cell<usize> = const { Cell::new(0) };
}

pub struct Counting;

fn add(n: usize) {
    let _ = CUR.try_with(|c| {
        let v = c.get().saturating_add(n);
        c.set(v);
        let _ = PEAK.try_with(|p| {
            if v > p.get() {
                p.set(v);
            }
        });
    });
}

fn sub(n: usize) {
    let _ = CUR.try_with(|c| c.set(c.get().saturating_sub(n)));
}

unsafe impl GlobalAlloc for Counting {
    unsafe fn alloc(&self, layout: Layout) -> *mut u8 {
        let p = System.alloc(layout);
        if !p.is_null() {
            add(layout.size());
        }
        p
    }
    unsafe fn dealloc(&self, ptr: *mut u8, layout: Layout) {
        System.dealloc(ptr, layout);
        sub(layout.size());
    }
    unsafe fn alloc_zeroed(&self, layout: Layout) -> *mut u8 {
        let p = System.alloc_zeroed(layout);
        if !p.is_null() {
            add(layout.size());
        }
        p
    }
    unsafe fn realloc(&self, ptr: *mut u8, layout: Layout, new_size: usize) -> *mut u8 {
        let p = System.realloc(ptr, layout, new_size);
        if !p.is_null() {
            sub(layout.size());
            add(new_size);
        }
        p
    }
}

pub fn current() -> usize {
    CUR.with(|c| c.get())
}

pub fn peak() -> usize {
    PEAK.with(|p| p.get())
}

pub fn reset_peak() {
    let cur = current();
    PEAK.with(|p| p.set(cur));
}
