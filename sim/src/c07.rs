//! C07: directed alignment histories and the parser-based oracle.
use crate::case::Case;
use crate::crash::os_image_at;
use crate::gen::aligned_len;
use crate::model::{Knobs, NameSpec, Op, Outcome, Policy, Rec};
use crate::prng::Rng;
use crate::run::{Driver, Failure};
use crate::simfs::{wal_number, Eff, BLOCK, FILE_BYTES};
use crate::walparse::{parse, EntryKind};

#[derive(Clone, Copy, Debug)]
pub struct Cell {
    pub r: usize,
    pub r2: usize,
    pub extra: usize,
    pub follow: u8,
}

pub const EXTRAS: [usize; 5] = [0, 1, 2, 3, 5];

pub fn grid_cell(i: usize) -> Cell {
    let r = i % 25;
    let r2 = (i / 25) % 25;
    let extra = EXTRAS[(i / 625) % 5];
    let follow = ((i / 3125) % 7) as u8;
    Cell { r, r2, extra, follow }
}

pub const GRID: usize = 25 * 25 * 5 * 7;

/// Builds and runs the directed history for one cell (ops chosen while running: the cursor is read back).
pub fn directed(seed: u64, cell: Cell) -> (Case, Driver, bool) {
    let mut rng = Rng::new(seed);
    let qlen = *rng.pick(&[1u32, 2, 3, 5, 8, 40, 300]);
    let names = vec![NameSpec { len: 6, tag: 0, wide: false }, NameSpec { len: qlen, tag: 1, wide: rng.chance(1, 5) }];
    let knobs = Knobs { bufwriter_capacity: *rng.pick(&[None, None, Some(1), Some(7), Some(100), Some(4096)]), hash_seed: rng.next_u64(), fs_seed: rng.next_u64(), short_write: if rng.chance(1, 6) { 150 } else { 0 }, short_read: if rng.chance(1, 6) { 150 } else { 0 }, eintr: if rng.chance(1, 8) { 50 } else { 0 } };
    let policy = *rng.pick(&[Policy::Always { fsync: false }, Policy::Always { fsync: true }, Policy::DoNothing]);
    let mut case = Case { names, policy, knobs, foreign: vec![], probe_seed: rng.next_u64(), ops: Vec::new() };
    let mut d = Driver::new(&case);
    let qname_len = d.names[1].len();
    let mut uid = 2u32;
    let mut push = |case: &mut Case, d: &mut Driver, op: Op| {
        case.ops.push(op.clone());
        d.step(op);
    };
    push(&mut case, &mut d, Op::Restart { policy: None });
    // anchor queue with one record in the first file: nothing is ever garbage collected, so the
    // parser must find exactly the entries that were written
    push(&mut case, &mut d, Op::Create { q: 0 });
    push(&mut case, &mut d, Op::Append { q: 0, pos: None, lens: vec![3], uid });
    push(&mut case, &mut d, Op::Create { q: 1 });
    // move to a PRNG block of the file (0..3 blocks further), sometimes next to the file end
    let pre_blocks = rng.usize_below(4);
    if pre_blocks > 0 {
        uid += 2;
        let len = pre_blocks * BLOCK - rng.usize_below(2000);
        push(&mut case, &mut d, Op::Append { q: 1, pos: None, lens: vec![len as u32], uid });
    }
    let mut aimed = true;
    // filler: leave `r` bytes in the block
    if let Some((_, off)) = d.cursor {
        match aligned_len(off % FILE_BYTES, qname_len, cell.r, if (BLOCK - off % BLOCK) < 64 + qname_len + cell.r { 1 } else { 0 }) {
            Some(l) => {
                uid += 2;
                push(&mut case, &mut d, Op::Append { q: 1, pos: None, lens: vec![l], uid });
            }
            None => aimed = false,
        }
    }
    let start = d.cursor;
    if let Some((_, off)) = start {
        if (BLOCK - off % BLOCK) % BLOCK != cell.r % BLOCK {
            aimed = false;
        }
    }
    // entry under test: leaves r2 bytes after spanning `extra` more blocks
    if let Some((_, off)) = d.cursor {
        match aligned_len(off % FILE_BYTES, qname_len, cell.r2, cell.extra + if cell.r < 7 + 23 + qname_len + cell.r2 { 1 } else { 0 }) {
            Some(l) => {
                uid += 2;
                // sometimes as a batch of the same total size
                let lens = if l > 40 && rng.chance(1, 3) { vec![l - 24 - 7, 7, 0] } else { vec![l] };
                push(&mut case, &mut d, Op::Append { q: 1, pos: None, lens, uid });
            }
            None => aimed = false,
        }
    }
    if let Some((_, off)) = d.cursor {
        if (BLOCK - off % BLOCK) % BLOCK != cell.r2 % BLOCK {
            aimed = false;
        }
    }
    uid += 2;
    match cell.follow {
        0 => push(&mut case, &mut d, Op::Append { q: 1, pos: None, lens: vec![0], uid }),
        1 => push(&mut case, &mut d, Op::Append { q: 1, pos: None, lens: vec![rng.below(100) as u32], uid }),
        2 => push(&mut case, &mut d, Op::Append { q: 1, pos: None, lens: vec![(BLOCK + rng.usize_below(3 * BLOCK)) as u32], uid }),
        3 => {
            let upto = d.model.queues.get(&d.names[1]).map(|m| m.next.saturating_sub(2)).unwrap_or(0);
            push(&mut case, &mut d, Op::Truncate { q: 1, upto });
        }
        4 => push(&mut case, &mut d, Op::Restart { policy: None }),
        6 => {
            // a multi-block entry that the torn-tail variant (run_c07) crashes in the middle of
            push(&mut case, &mut d, Op::Append { q: 1, pos: None, lens: vec![(BLOCK + 2000 + rng.usize_below(2 * BLOCK)) as u32], uid });
        }
        _ => {
            push(&mut case, &mut d, Op::Restart { policy: None });
            push(&mut case, &mut d, Op::Append { q: 1, pos: None, lens: vec![rng.below(3000) as u32], uid });
        }
    }
    push(&mut case, &mut d, Op::Restart { policy: None });
    (case, d, aimed)
}

fn fail(clause: &str, idx: usize, detail: String) -> Failure {
    Failure { prop: "C07", clause: clause.to_string(), op_index: idx, detail }
}

/// Parser-based oracle over a finished fault-free history without garbage collection.
pub fn oracle(d: &Driver) -> Vec<Failure> {
    let mut out = Vec::new();
    // (b) the crate's own reader: restart conformance ran inside the driver
    if let Some(f) = d.failures.iter().find(|f| f.prop == "C01" || f.prop == "C05") {
        out.push(fail("reader-roundtrip", f.op_index, format!("entries were not read back identical: {}", f.detail)));
        return out;
    }
    if d.probes.gc_deleted_file > 0 {
        return out; // expected entry list unknown once files are deleted
    }
    // (a) expected entries, in order
    let mut expected: Vec<EntryKind> = Vec::new();
    for (i, s) in d.steps.iter().enumerate() {
        match (&s.op, &s.expected) {
            (Op::Create { q }, Outcome::Created { .. }) => expected.push(EntryKind::Position { queue: d.names[*q].clone(), position: 0 }),
            (Op::Delete { q }, Outcome::Deleted { .. }) => expected.push(EntryKind::Delete { queue: d.names[*q].clone(), position: d.models[i].queues[&d.names[*q]].next }),
            (Op::Truncate { q, upto }, Outcome::Truncated { .. }) => expected.push(EntryKind::Truncate { queue: d.names[*q].clone(), upto: *upto }),
            (Op::Append { q, lens, uid, .. }, Outcome::Appended { last: Some(last), .. }) => {
                let first = last.wrapping_add(1).wrapping_sub(lens.len() as u64);
                let recs: Vec<Rec> = lens.iter().enumerate().map(|(k, &l)| Rec::of(first.wrapping_add(k as u64), &crate::model::payload(*uid, k as u32, l as usize))).collect();
                expected.push(EntryKind::Append { queue: d.names[*q].clone(), position: first, recs });
            }
            _ => {}
        }
    }
    let image = os_image_at(d, d.world.trace_len(), None);
    let p = parse(&image);
    if let Some(pb) = p.problems.first() {
        out.push(fail("wal-layout", d.steps.len(), format!("independent parser: {pb}")));
        return out;
    }
    let got: Vec<&EntryKind> = p.entries.iter().map(|e| &e.kind).collect();
    if got.len() != expected.len() || got.iter().zip(&expected).any(|(a, b)| *a != b) {
        let k = got.iter().zip(&expected).position(|(a, b)| *a != b).unwrap_or(got.len().min(expected.len()));
        out.push(fail("entries-differ", d.steps.len(), format!("independent parser read {} entries from the WAL image, {} were written; first difference at entry {} ({:?} vs {:?})", got.len(), expected.len(), k, got.get(k).map(|e| short(e)), expected.get(k).map(short))));
        return out;
    }
    // (c) at every restart the writer must land where the parser says the log ends
    let fs = d.world.fs.borrow();
    for (i, s) in d.steps.iter().enumerate().skip(1) {
        if !matches!(s.op, Op::Restart { .. }) {
            continue;
        }
        let img = os_image_at(d, s.open_start, None);
        let pp = parse(&img);
        let Some(end_name) = pp.files.get(pp.end.0) else { continue };
        let last_seek = fs.trace[s.open_start..s.eff_end].iter().rev().find_map(|e| if let Eff::Seek { name, pos, .. } = &e.eff { Some((name.clone(), *pos as usize)) } else { None });
        if let Some((name, pos)) = last_seek {
            if wal_number(&name) != wal_number(end_name) || pos != pp.end.1 {
                out.push(fail("end-of-log-cursor", i, format!("at restart (op {i}) the log ends at {} offset {} according to the independent parser, but recovery positioned the writer at {} offset {}", end_name, pp.end.1, name, pos)));
                return out;
            }
        }
    }
    out
}

fn short(e: &EntryKind) -> String {
    match e {
        EntryKind::Append { queue, position, recs } => format!("Append({}B name, @{position}, {} recs, {} B)", queue.len(), recs.len(), recs.iter().map(|r| r.len as u64).sum::<u64>()),
        other => format!("{other:?}").chars().take(80).collect(),
    }
}
