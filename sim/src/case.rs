//! Replayable case description.
use serde::{Deserialize, Serialize};

use crate::model::{Knobs, NameSpec, Op, Policy};
use crate::simfs::{Image, Node};

#[derive(Clone, Debug, PartialEq, Eq, Serialize, Deserialize)]
pub enum ForeignKind {
    File { len: u32, seed: u64 },
    /// copy of the first block pattern of a valid WAL (valid frames) to tempt the reader
    WalLike { seed: u64 },
    Dir,
    Symlink,
}

#[derive(Clone, Debug, PartialEq, Eq, Serialize, Deserialize)]
pub struct Foreign {
    pub name: String,
    pub kind: ForeignKind,
}

#[derive(Clone, Debug, PartialEq, Eq, Serialize, Deserialize)]
pub struct Case {
    pub names: Vec<NameSpec>,
    pub policy: Policy,
    pub knobs: Knobs,
    #[serde(default)]
    pub foreign: Vec<Foreign>,
    /// seed of the read-only probes (range bounds); never influences the history itself
    pub probe_seed: u64,
    /// ops[0] is always the initial open (`Restart`)
    pub ops: Vec<Op>,
}

impl Case {
    pub fn name_strings(&self) -> Vec<String> {
        self.names.iter().map(|n| n.name()).collect()
    }

    pub fn initial_image(&self) -> Image {
        let mut image = Image::new();
        for f in &self.foreign {
            let node = match &f.kind {
                ForeignKind::File { len, seed } => {
                    let mut rng = crate::prng::Rng::new(*seed);
                    let mut data = vec![0u8; *len as usize];
                    for b in data.iter_mut() {
                        *b = rng.next_u64() as u8;
                    }
                    Node::File(std::rc::Rc::new(data))
                }
                ForeignKind::WalLike { seed } => Node::File(std::rc::Rc::new(crate::walparse::forge_valid_block(*seed))),
                ForeignKind::Dir => Node::Dir,
                ForeignKind::Symlink => Node::Symlink,
            };
            image.insert(f.name.clone(), node);
        }
        image
    }
}
