//! Check harness: seeded parallel search, failure triage, replay files, evidence.
use std::collections::{BTreeMap, BTreeSet};
use std::sync::atomic::{AtomicBool, AtomicUsize, Ordering};
use std::sync::Mutex;
use std::time::Instant;

use serde::{Deserialize, Serialize};
use serde_json::{json, Value};

use crate::case::Case;
use crate::prng::mix;
use crate::run::Probes;

#[derive(Clone, Copy, Debug, PartialEq, Eq)]
pub enum Tier {
    Quick,
    Thorough,
}

impl Tier {
    pub fn name(&self) -> &'static str {
        match self {
            Tier::Quick => "quick",
            Tier::Thorough => "thorough",
        }
    }
}

#[derive(Clone, Debug, Serialize, Deserialize, PartialEq)]
pub struct Found {
    pub prop: String,
    pub clause: String,
    pub detail: String,
    pub case: Case,
    pub fault: crate::fault::Fault,
}

impl Found {
    pub fn fingerprint(&self) -> String {
        format!("{}/{}", self.prop, self.clause)
    }
}

#[derive(Default)]
pub struct RunReport {
    pub evaluations: u64,
    /// signatures of the non-trivial cases of this run
    pub signatures: Vec<u64>,
    pub states: Vec<u64>,
    pub found: Vec<Found>,
    pub probes: Probes,
    pub counters: BTreeMap<String, u64>,
    pub sample: Option<Value>,
    pub harness_errors: Vec<String>,
    pub digest: u64,
    pub sim_clock_ns: u64,
}

impl RunReport {
    pub fn count(&mut self, key: &str, n: u64) {
        *self.counters.entry(key.to_string()).or_insert(0) += n;
    }
}

pub struct PropSpec {
    pub id: &'static str,
    pub level: &'static str,
    pub rule: &'static str,
    pub quick_runs: usize,
    pub thorough_runs: usize,
    pub assumptions: &'static [&'static str],
}

pub fn run_seed(base: u64, prop: &str, index: usize) -> u64 {
    mix(&[base, crate::prng::hash_bytes(prop.as_bytes()), index as u64])
}

pub struct Merged {
    pub runs: usize,
    pub evaluations: u64,
    pub signatures: BTreeSet<u64>,
    pub states: BTreeSet<u64>,
    pub found: Vec<(usize, Found)>,
    pub probes: Probes,
    pub counters: BTreeMap<String, u64>,
    pub samples: Vec<Value>,
    pub harness_errors: Vec<String>,
    pub digest: u64,
    pub sim_clock_ns: u64,
    pub wall_s: f64,
    pub capped: bool,
}

/// Runs `n_runs` seeded runs on all cores; merges deterministically (by run index).
pub fn search<F>(prop: &str, base_seed: u64, n_runs: usize, cap_s: f64, threads: usize, f: F) -> Merged
where
    F: Fn(u64, usize) -> RunReport + Sync,
{
    let next = AtomicUsize::new(0);
    let stop = AtomicBool::new(false);
    let results: Mutex<Vec<(usize, RunReport)>> = Mutex::new(Vec::new());
    let t0 = Instant::now();
    std::thread::scope(|s| {
        for _ in 0..threads {
            s.spawn(|| {
                crate::world::install_panic_hook_once();
                loop {
                    if stop.load(Ordering::Relaxed) {
                        break;
                    }
                    let i = next.fetch_add(1, Ordering::Relaxed);
                    if i >= n_runs {
                        break;
                    }
                    // a panic of the harness itself (not of the code under test, which runs under its own
                    // catch_unwind) is a harness error of that run: exit 2, never a verdict and never a crash
                    let rep = match std::panic::catch_unwind(std::panic::AssertUnwindSafe(|| f(run_seed(base_seed, prop, i), i))) {
                        Ok(rep) => rep,
                        Err(_) => {
                            let mut r = RunReport::default();
                            r.harness_errors.push(format!("the harness panicked in run index {i} (seed {})", run_seed(base_seed, prop, i)));
                            r
                        }
                    };
                    results.lock().unwrap().push((i, rep));
                    if t0.elapsed().as_secs_f64() > cap_s {
                        stop.store(true, Ordering::Relaxed);
                    }
                }
            });
        }
    });
    let mut results = results.into_inner().unwrap();
    results.sort_by_key(|r| r.0);
    // keep only the contiguous prefix of run indices so that the explored set is well defined
    let mut m = Merged {
        runs: 0,
        evaluations: 0,
        signatures: BTreeSet::new(),
        states: BTreeSet::new(),
        found: Vec::new(),
        probes: Probes::default(),
        counters: BTreeMap::new(),
        samples: Vec::new(),
        harness_errors: Vec::new(),
        digest: 0,
        sim_clock_ns: 0,
        wall_s: 0.0,
        capped: stop.load(Ordering::Relaxed),
    };
    let mut dg = crate::prng::Digest::new();
    for (i, rep) in results {
        m.runs += 1;
        m.evaluations += rep.evaluations;
        m.signatures.extend(rep.signatures);
        m.states.extend(rep.states);
        for f in rep.found {
            m.found.push((i, f));
        }
        m.probes.add(&rep.probes);
        for (k, v) in rep.counters {
            *m.counters.entry(k).or_insert(0) += v;
        }
        if let Some(s) = rep.sample {
            if m.samples.len() < 3 {
                m.samples.push(s);
            }
        }
        for e in rep.harness_errors {
            if m.harness_errors.len() < 20 {
                m.harness_errors.push(format!("run {i}: {e}"));
            }
        }
        dg.u64(i as u64);
        dg.u64(rep.digest);
        m.sim_clock_ns += rep.sim_clock_ns;
    }
    m.digest = dg.0;
    m.wall_s = t0.elapsed().as_secs_f64();
    m
}

#[derive(Clone, Debug, Deserialize)]
pub struct KnownFinding {
    pub property: String,
    pub fingerprint: String,
    pub description: String,
}

pub fn load_known_findings(path: &str) -> Vec<KnownFinding> {
    let Ok(text) = std::fs::read_to_string(path) else { return Vec::new() };
    let Ok(v) = serde_json::from_str::<Value>(&text) else { return Vec::new() };
    v.get("findings")
        .and_then(|f| f.as_array())
        .map(|arr| arr.iter().filter_map(|x| serde_json::from_value(x.clone()).ok()).collect())
        .unwrap_or_default()
}

#[allow(clippy::too_many_arguments)]
pub fn write_evidence(
    dir: &str,
    spec: &PropSpec,
    tier: Tier,
    seed: u64,
    m: &Merged,
    violations: usize,
    known_hit: &[String],
    extra: Value,
) {
    let hours = (m.wall_s / 3600.0).max(1e-9);
    let mut cov = json!({
        "evaluations": m.evaluations,
        "distinct_nontrivial": m.signatures.len(),
        "rule": spec.rule,
        "samples": m.samples,
        "exhaustive": false,
        "runs": m.runs,
        "runs_per_hour": (m.runs as f64 / hours) as u64,
        "evaluations_per_hour": (m.evaluations as f64 / hours) as u64,
        "seeds": format!("VERIF_SEED={seed}; run seed = mix(VERIF_SEED, hash(property id), run index) for run index 0..{}", m.runs),
        "distinct_states": m.states.len(),
        "distinct_states_measure": "hash of (model digest after the run, number of WAL files, write cursor mod 32768)",
        "sim_clock_seconds_covered": m.sim_clock_ns as f64 / 1e9,
        "probes": m.probes.to_json(),
        "counters": m.counters,
        "run_set_digest": format!("{:016x}", m.digest),
        "wall_clock_cap_hit": m.capped,
        "harness_errors": m.harness_errors,
        "known_findings_hit": known_hit,
        "real_vs_stub": {
            "real": "all of mrecordlog (multi_record_log, recordlog, frame, rolling incl. std BufWriter/read_exact/write_all, mem queues)",
            "stub": "kernel file system (SimFs behind cfg(mrecordlog_verif) hook), monotonic clock, HashMap seed; WAL files are 4 blocks as under cfg(test)"
        },
    });
    if let (Some(obj), Some(ext)) = (cov.as_object_mut(), extra.as_object()) {
        for (k, v) in ext {
            obj.insert(k.clone(), v.clone());
        }
    }
    let ev = json!({
        "property_id": spec.id,
        "tier": tier.name(),
        "seed": seed,
        "level": spec.level,
        "coverage": cov,
        "assumptions": spec.assumptions,
        "wall_s": m.wall_s,
        "violations": violations,
    });
    let _ = std::fs::create_dir_all(dir);
    let path = format!("{dir}/{}.json", spec.id);
    std::fs::write(&path, serde_json::to_string_pretty(&ev).unwrap()).expect("cannot write evidence");
    if tier == Tier::Thorough {
        // keep a copy that the next quick run does not overwrite
        let _ = std::fs::create_dir_all(format!("{dir}/thorough"));
        let _ = std::fs::write(format!("{dir}/thorough/{}.json", spec.id), serde_json::to_string_pretty(&ev).unwrap());
    }
}
