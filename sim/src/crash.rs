//! Crash engine: disk images at arbitrary crash points are rebuilt from the effect trace of a
//! fault-free execution (the code under test is never interrupted), recovered with the real
//! `open`, and judged by the property-specific oracles.
use std::collections::{BTreeMap, BTreeSet};
use std::rc::Rc;

use crate::case::Case;
use crate::fault::{CrashPoint, Fault};
use crate::gen::{Gen, GenCfg, Profile};
use crate::model::{Knobs, Model, Obs, Op, Outcome, Policy, Rec};
use crate::prng::{mix, Rng};
use crate::run::{Driver, Failure};
use crate::simfs::{DNode, Eff, Effect, FsState, Image, Node, BLOCK};
use crate::world::{OpenFail, World};

// ------------------------------------------------------------------ image reconstruction

/// Applies the first `n` bytes of a write effect.
pub fn apply_partial(st: &mut FsState, eff: &Eff, n: usize) {
    if let Eff::Write { ino, off, data, .. } = eff {
        st.write_at(*ino, *off as usize, &data[..n.min(data.len())]);
    }
}

/// Global trace index of a crash point given relative to its op.
pub fn global_index(d: &Driver, at: &CrashPoint) -> Option<usize> {
    if at.op == d.steps.len() {
        return if at.eff_in_op == 0 { Some(d.world.trace_len()) } else { None };
    }
    let s = d.steps.get(at.op)?;
    let idx = s.eff_start + at.eff_in_op;
    if idx > s.eff_end {
        return None;
    }
    Some(idx)
}

/// OS-view image after effects [0, idx) (+ `byte` bytes of effect idx): the process-crash model.
pub fn os_image_at(d: &Driver, idx: usize, byte: Option<usize>) -> Image {
    let fs = d.world.fs.borrow();
    let mut st = fs.bases[0].1.clone();
    for e in &fs.trace[..idx] {
        st.apply(&e.eff);
    }
    if let (Some(n), Some(e)) = (byte, fs.trace.get(idx)) {
        apply_partial(&mut st, &e.eff, n);
    }
    st.to_image()
}

enum Pending<'a> {
    SetLen(u64),
    Write(u64, &'a [u8]),
}

enum DirOp {
    Create(String, usize),
    Unlink(String),
    Rename(String, String),
}

/// Power-loss image: durable state (per-inode content as of its last fsync, directory as of the
/// last directory fsync) plus a seeded part of the unsynced effects: file data per 512-byte
/// sector and each set_len independently ("unsynced bytes lost"), directory operations
/// (create / unlink) as a prefix of their program order (ordered metadata journal).
pub fn powerloss_image(trace: &[Effect], base: &FsState, idx: usize, byte: Option<usize>, seed: u64) -> Image {
    let mut os = base.clone();
    let mut dur_dir = base.dir.clone();
    let mut dur_data: Vec<Rc<Vec<u8>>> = base.inodes.clone();
    let mut pend: Vec<Vec<Pending>> = base.inodes.iter().map(|_| Vec::new()).collect();
    let mut pend_dir: Vec<DirOp> = Vec::new();
    for e in &trace[..idx] {
        match &e.eff {
            Eff::Create { name, ino } => {
                os.apply(&e.eff);
                dur_data.push(Rc::new(Vec::new()));
                pend.push(Vec::new());
                pend_dir.push(DirOp::Create(name.clone(), *ino));
            }
            Eff::SetLen { ino, len, .. } => {
                os.apply(&e.eff);
                pend[*ino].push(Pending::SetLen(*len));
            }
            Eff::Write { ino, off, data, .. } => {
                os.apply(&e.eff);
                pend[*ino].push(Pending::Write(*off, data));
            }
            Eff::SyncData { ino, .. } => {
                dur_data[*ino] = os.inodes[*ino].clone();
                pend[*ino].clear();
            }
            Eff::SyncDir => {
                dur_dir = os.dir.clone();
                pend_dir.clear();
            }
            Eff::Unlink { name, .. } => {
                os.apply(&e.eff);
                pend_dir.push(DirOp::Unlink(name.clone()));
            }
            Eff::Rename { from, to } => {
                os.apply(&e.eff);
                pend_dir.push(DirOp::Rename(from.clone(), to.clone()));
            }
            _ => {}
        }
    }
    if let (Some(n), Some(e)) = (byte, trace.get(idx)) {
        if let Eff::Write { ino, off, data, .. } = &e.eff {
            pend[*ino].push(Pending::Write(*off, &data[..n.min(data.len())]));
        }
    }
    let mut rng = Rng::new(seed);
    // keep probability in 1/8: mode 0 nothing, 1 everything, otherwise a per-image rate
    let keep = match seed % 4 {
        0 => 0u64,
        1 => 8,
        2 => 4,
        _ => *rng.pick(&[1u64, 2, 6, 7]),
    };
    let mut coin = |rng: &mut Rng| rng.below(8) < keep;
    let mut dir = dur_dir;
    // namespace operations are journaled in order: a seeded *prefix* of them survives
    let n_dir = match keep {
        0 => 0,
        8 => pend_dir.len(),
        _ => rng.usize_below(pend_dir.len() + 1),
    };
    for op in pend_dir.into_iter().take(n_dir) {
        {
            match op {
                DirOp::Create(name, ino) => {
                    dir.insert(name, DNode::File(ino));
                }
                DirOp::Unlink(name) => {
                    dir.remove(&name);
                }
                DirOp::Rename(from, to) => {
                    if let Some(node) = dir.remove(&from) {
                        dir.insert(to, node);
                    }
                }
            }
        }
    }
    let mut image = Image::new();
    for (name, node) in dir {
        let n = match node {
            DNode::Dir => Node::Dir,
            DNode::Symlink => Node::Symlink,
            DNode::File(ino) => {
                let mut data: Vec<u8> = (*dur_data[ino]).clone();
                for p in &pend[ino] {
                    match p {
                        Pending::SetLen(len) => {
                            if coin(&mut rng) {
                                data.resize(*len as usize, 0);
                            }
                        }
                        Pending::Write(off, bytes) => {
                            let mut pos = 0usize;
                            while pos < bytes.len() {
                                let abs = *off as usize + pos;
                                let sector_end = (abs / 512 + 1) * 512;
                                let take = (sector_end - abs).min(bytes.len() - pos);
                                if coin(&mut rng) {
                                    if data.len() < abs + take {
                                        data.resize(abs + take, 0);
                                    }
                                    data[abs..abs + take].copy_from_slice(&bytes[pos..pos + take]);
                                }
                                pos += take;
                            }
                        }
                    }
                }
                Node::File(Rc::new(data))
            }
        };
        image.insert(name, n);
    }
    image
}

// ------------------------------------------------------------------ recovery helpers

pub fn blocks_on_disk(image: &Image) -> usize {
    image.values().map(|n| if let Node::File(d) = n { d.len() / BLOCK + 1 } else { 0 }).sum()
}

/// Opens `image` with the real code under a step budget. Returns the world (open) and its observation.
pub fn recover(image: &Image, names: &[String], policy: Policy, knobs: &Knobs) -> Result<(World, Obs), (OpenFail, World)> {
    let mut w = World::new(image, names.to_vec(), policy, knobs.clone());
    let budget = 400 + 24 * blocks_on_disk(image);
    w.fs.borrow_mut().set_budget(budget);
    let res = w.open();
    w.fs.borrow_mut().clear_budget();
    match res {
        Ok(()) => match w.observe() {
            Ok(obs) => Ok((w, obs)),
            Err(msg) => Err((OpenFail::Panic(format!("read accessor panicked on the recovered log: {msg}")), w)),
        },
        Err(e) => Err((e, w)),
    }
}

pub fn open_fail_text(e: &OpenFail) -> String {
    match e {
        OpenFail::Io(s) => format!("open returned an I/O error ({s})"),
        OpenFail::Corruption => "open returned Corruption".to_string(),
        OpenFail::Panic(s) => format!("open panicked: {s}"),
        OpenFail::Hang => "open did not terminate within the file-system step budget".to_string(),
    }
}

// ------------------------------------------------------------------ allowed-state sets (C02)

#[derive(Clone, Debug, PartialEq, Eq)]
pub enum Matched {
    Exact(usize),
    Partial,
    No(String),
}

/// `Partial(M, op)`: op is an in-flight truncate / delete_queue on q.
pub fn is_partial(m: &Model, op: &Op, obs: &Obs, names: &[String]) -> bool {
    let (q, upto) = match op {
        Op::Truncate { q, upto } => (*q, Some(*upto)),
        Op::Delete { q } => (*q, None),
        _ => return false,
    };
    let name = &names[q];
    let Some(mq) = m.queues.get(name) else { return false };
    let want = m.to_obs();
    // every other queue exactly as in M
    if obs.queues.len() != want.queues.len() {
        return false;
    }
    for (n, wq) in &want.queues {
        if n == name {
            continue;
        }
        if obs.queues.get(n) != Some(wq) {
            return false;
        }
    }
    let Some(oq) = obs.queues.get(name) else { return false };
    // a suffix of M[q].recs ...
    if oq.recs.len() > mq.recs.len() || mq.recs[mq.recs.len() - oq.recs.len()..] != oq.recs[..] {
        return false;
    }
    // ... that contains every record the op does not target
    let untargeted = match upto {
        Some(p) => mq.recs.iter().filter(|r| r.pos > p).count(),
        None => 0,
    };
    if oq.recs.len() < untargeted {
        return false;
    }
    // next position unchanged
    oq.last_position == mq.next.checked_sub(1) && oq.last_record == oq.recs.last().copied() && oq.summary_end == oq.last_position
}

pub fn match_allowed(d: &Driver, b: usize, obs: &Obs) -> Matched {
    let n = d.steps.len();
    let mb = &d.models[b.min(n)];
    if *obs == mb.to_obs() {
        return Matched::Exact(b);
    }
    if b < n {
        let ma = &d.models[b + 1];
        if *obs == ma.to_obs() {
            return Matched::Exact(b + 1);
        }
        if is_partial(mb, &d.steps[b].op, obs, &d.names) {
            return Matched::Partial;
        }
        let d0 = obs.diff(&mb.to_obs());
        let d1 = obs.diff(&ma.to_obs());
        return Matched::No(format!("vs state before {}: {}; vs state after it: {}", d.steps[b].op.short(), d0, d1));
    }
    Matched::No(format!("vs final state: {}", obs.diff(&mb.to_obs())))
}

// ------------------------------------------------------------------ C12 batch atomicity

/// Every batch appended by ops[..=b] must be recovered whole, or not at all, apart from a leading
/// part targeted by some truncate/delete of the history.
pub fn batch_atomicity(d: &Driver, b: usize, obs: &Obs) -> Option<String> {
    let upto = b.min(d.steps.len().saturating_sub(1));
    for (i, s) in d.steps.iter().enumerate().take(upto + 1) {
        let Op::Append { q, lens, uid, .. } = &s.op else { continue };
        // positions the model assigned (for the in-flight op: what it would assign)
        let exp = if i < b || i < d.steps.len() { &s.expected } else { continue };
        let Outcome::Appended { last: Some(last), .. } = exp else { continue };
        if lens.len() < 2 {
            continue;
        }
        let first = last.wrapping_add(1).wrapping_sub(lens.len() as u64);
        let name = &d.names[*q];
        // a completed delete_queue after the batch ended its incarnation: nothing of it may be
        // expected, and equal-looking records (empty payloads) of a later incarnation are not its records
        let deleted_since = d.steps.iter().enumerate().skip(i + 1).take_while(|(j, _)| *j < b).any(|(_, t)| matches!(&t.op, Op::Delete { q: dq } if dq == q) && !t.expected.is_err());
        if deleted_since {
            continue;
        }
        let Some(oq) = obs.queues.get(name) else { continue };
        // only self-identifying payloads (>= 16 bytes: they carry the op id) are attributable to this batch;
        // shorter ones can be byte-equal to records of another incarnation at the same position
        let recs: Vec<Rec> = lens.iter().enumerate().filter(|(_, &l)| l >= 16).map(|(k, &l)| Rec::of(first.wrapping_add(k as u64), &crate::model::payload(*uid, k as u32, l as usize))).collect();
        if recs.len() < 2 {
            continue;
        }
        let present: Vec<bool> = recs.iter().map(|r| oq.recs.binary_search_by_key(&r.pos, |x| x.pos).ok().map(|ix| oq.recs[ix] == *r).unwrap_or(false)).collect();
        let n_present = present.iter().filter(|&&p| p).count();
        if n_present == 0 || n_present == recs.len() {
            continue;
        }
        // must be a suffix
        let first_present = present.iter().position(|&p| p).unwrap();
        if present[first_present..].iter().any(|&p| !p) {
            return Some(format!("batch of {} #{} recovered with a hole or a missing tail: present = {:?}", s.op.short(), uid, summarize(&present)));
        }
        // the missing leading part must be targeted by a truncate / delete later in the history (incl. in flight)
        let max_missing_pos = recs[first_present - 1].pos;
        let targeted = d.steps.iter().enumerate().skip(i + 1).take(upto.saturating_sub(i)).any(|(_, t)| match &t.op {
            Op::Truncate { q: tq, upto } => tq == q && *upto >= max_missing_pos,
            Op::Delete { q: tq } => tq == q,
            _ => false,
        });
        if !targeted {
            return Some(format!("batch of {} #{} lost its first {} records although no truncate/delete targets them", s.op.short(), uid, first_present));
        }
    }
    None
}

fn summarize(p: &[bool]) -> String {
    p.iter().map(|&b| if b { '1' } else { '0' }).collect()
}

// ------------------------------------------------------------------ C04 high-water marks as of op b

pub fn high_water(d: &Driver, b: usize) -> BTreeMap<String, u64> {
    // per queue name, for the incarnation alive in models[b]
    let mut hw: BTreeMap<(String, u32), u64> = BTreeMap::new();
    for (i, s) in d.steps.iter().enumerate().take(b) {
        let after = &d.models[i + 1];
        match (&s.op, &s.expected) {
            (Op::Append { q, .. }, Outcome::Appended { last: Some(last), .. }) => {
                if let Some(mq) = after.queues.get(&d.names[*q]) {
                    let e = hw.entry((d.names[*q].clone(), mq.incarnation)).or_insert(0);
                    *e = (*e).max(*last);
                }
            }
            (Op::Truncate { q, upto }, Outcome::Truncated { .. }) => {
                if let Some(mq) = after.queues.get(&d.names[*q]) {
                    let e = hw.entry((d.names[*q].clone(), mq.incarnation)).or_insert(0);
                    *e = (*e).max(*upto);
                }
            }
            _ => {}
        }
    }
    let mb = &d.models[b.min(d.steps.len())];
    let mut out = BTreeMap::new();
    for (name, mq) in &mb.queues {
        if let Some(h) = hw.get(&(name.clone(), mq.incarnation)) {
            out.insert(name.clone(), *h);
        }
    }
    out
}

// ------------------------------------------------------------------ the per-crash-point test

#[derive(Default)]
pub struct CrashStats {
    pub recovered_exact_before: u64,
    pub recovered_exact_after: u64,
    pub recovered_partial: u64,
    pub second_crashes: u64,
    pub continuations: u64,
    pub recovery_wrote: u64,
}

pub enum Cont<'a> {
    Generate(u64),
    Explicit(&'a [Op]),
}

pub struct CrashOutcome {
    pub failures: Vec<Failure>,
    pub cont_used: Vec<Op>,
    pub matched: Option<Matched>,
    /// effect trace length of the recovery (for second-crash enumeration)
    pub recovery_mutations: Vec<usize>,
}

fn fail(prop: &'static str, clause: &str, b: usize, detail: String) -> Failure {
    Failure { prop, clause: clause.to_string(), op_index: b, detail }
}

/// Recovers from `image` (crash while op `b` was in flight) and evaluates C02, C04, C12.
pub fn test_process_crash(d: &Driver, case: &Case, b: usize, image: &Image, cont: Cont, stats: &mut CrashStats, second: Option<(usize, Option<usize>)>) -> CrashOutcome {
    let mut out = CrashOutcome { failures: Vec::new(), cont_used: Vec::new(), matched: None, recovery_mutations: Vec::new() };
    let n = d.steps.len();
    let policy = if b < n { d.steps[b].policy } else { d.steps.last().map(|s| s.policy).unwrap_or(case.policy) };
    let where_ = if b < n { format!("crash inside op {} {}", b, d.steps[b].op.short()) } else { "crash after the last op".to_string() };
    let (mut w, obs) = match recover(image, &d.names, policy, &case.knobs) {
        Ok(x) => x,
        Err((e, _)) => {
            out.failures.push(fail("C02", "open-failed", b, format!("{where_}: {}", open_fail_text(&e))));
            return out;
        }
    };
    // --- second crash inside recovery: rebuild from the recovery's own trace
    {
        let fs = w.fs.borrow();
        out.recovery_mutations = fs.trace.iter().enumerate().filter(|(_, e)| e.eff.is_mutating()).map(|(i, _)| i).collect();
    }
    if !out.recovery_mutations.is_empty() {
        stats.recovery_wrote += 1;
    }
    if let Some((ridx, rbyte)) = second {
        let image2 = {
            let fs = w.fs.borrow();
            let mut st = fs.bases[0].1.clone();
            for e in &fs.trace[..ridx.min(fs.trace.len())] {
                st.apply(&e.eff);
            }
            if let (Some(nb), Some(e)) = (rbyte, fs.trace.get(ridx)) {
                apply_partial(&mut st, &e.eff, nb);
            }
            st.to_image()
        };
        stats.second_crashes += 1;
        drop(w);
        match recover(&image2, &d.names, policy, &case.knobs) {
            Ok((w2, obs2)) => {
                let m2 = match_allowed(d, b, &obs2);
                if let Matched::No(diff) = &m2 {
                    out.failures.push(fail("C02", "second-crash-state", b, format!("{where_}, then a second crash at recovery effect {ridx} (byte {rbyte:?}): recovered state is not an allowed one: {diff}")));
                    return out;
                }
                return finish(d, case, b, w2, obs2, m2, cont, stats, out, &where_, &image2);
            }
            Err((e, _)) => {
                out.failures.push(fail("C02", "second-crash-open-failed", b, format!("{where_}, then a second crash at recovery effect {ridx} (byte {rbyte:?}): {}", open_fail_text(&e))));
                return out;
            }
        }
    }
    let m = match_allowed(d, b, &obs);
    finish(d, case, b, w, obs, m, cont, stats, out, &where_, image)
}

#[allow(clippy::too_many_arguments)]
fn finish(d: &Driver, case: &Case, b: usize, w: World, obs: Obs, m: Matched, cont: Cont, stats: &mut CrashStats, mut out: CrashOutcome, where_: &str, image: &Image) -> CrashOutcome {
    let n = d.steps.len();
    out.matched = Some(m.clone());
    // C12 is judged on whatever state was recovered
    if let Some(msg) = batch_atomicity(d, b, &obs) {
        out.failures.push(fail("C12", "batch-torn-by-crash", b, format!("{where_}: {msg}")));
    }
    // C06 after recovery: nothing older than the oldest retained record's file and the file recovery resumes in
    if let Some(msg) = c06_after_recovery(&w, &obs, image) {
        out.failures.push(fail("C06", "file-not-reclaimed-after-crash", b, format!("{where_}: {msg}")));
    }
    // C04: recovered next positions may not fall below what was handed out before the crash
    let mut hw = high_water(d, b);
    // an incarnation that did not survive (in-flight delete applied) has ended
    let inflight_delete: Option<&String> = if b < n { if let Op::Delete { q } = &d.steps[b].op { Some(&d.names[*q]) } else { None } } else { None };
    for (name, h) in &hw {
        if !obs.queues.contains_key(name) && inflight_delete != Some(name) {
            out.failures.push(fail("C04", "queue-with-positions-vanished-after-crash", b, format!("{where_}: a queue (name {} B) that had handed out positions up to {} and was never deleted no longer exists after recovery", name.len(), h)));
        }
    }
    hw.retain(|name, _| obs.queues.contains_key(name));
    for (name, h) in &hw {
        if let Some(oq) = obs.queues.get(name) {
            let next = oq.last_position.map(|p| p.saturating_add(1)).unwrap_or(0);
            if next < h.saturating_add(1) {
                out.failures.push(fail("C04", "next-regressed-after-crash", b, format!("{where_}: queue recovered with next position {} although position {} had been appended or truncated-to", next, h)));
            }
        }
    }
    let model = match &m {
        Matched::Exact(j) => {
            if *j == b {
                stats.recovered_exact_before += 1;
            } else {
                stats.recovered_exact_after += 1;
            }
            d.models[(*j).min(n)].clone()
        }
        Matched::Partial => {
            stats.recovered_partial += 1;
            let mut mm = d.models[b].clone();
            mm.rebase(&obs);
            mm
        }
        Matched::No(diff) => {
            out.failures.push(fail("C02", "state-not-allowed", b, format!("{where_}: recovered state is neither the state before nor after the in-flight call (nor a tolerated partial truncate/delete): {diff}")));
            return out;
        }
    };
    // --- usable: continuation in lock-step, then a clean restart
    stats.continuations += 1;
    let mut cd = Driver::adopt(w, model, case.probe_seed ^ b as u64);
    cd.light = true;
    // keep going after a divergence (it is recorded): the position monitor needs the calls that follow
    cd.lenient = true;
    // positions handed out before the crash keep counting for the queues that survived
    for (name, h) in &hw {
        if let Some(mq) = cd.model.queues.get(name) {
            cd.hw.insert((name.clone(), mq.incarnation), *h);
        }
    }
    let ops: Vec<Op> = match cont {
        Cont::Explicit(ops) => ops.to_vec(),
        Cont::Generate(seed) => gen_continuation(&mut cd, seed, &hw, &mut out.failures, b, where_),
    };
    if let Cont::Explicit(_) = cont {
        for op in &ops {
            if cd.stopped {
                break;
            }
            let o = cd.step(op.clone());
            check_c04_cont(op, &o, &cd, &hw, &mut out.failures, b, where_);
        }
    }
    out.cont_used = ops;
    if let Some(f) = cd.failures.iter().find(|f| f.prop == "C05" || f.prop == "C01") {
        out.failures.push(fail("C02", if f.prop == "C01" { "restart-after-recovery-diverged" } else { "continuation-diverged" }, b,
            format!("{where_}: after recovery, continuation op {} diverged from a log that never crashed: {}", f.op_index, f.detail)));
    }
    if let Some(f) = cd.failures.iter().find(|f| f.prop == "C04") {
        out.failures.push(fail("C04", "position-reused-after-crash", b, format!("{where_}: {}", f.detail)));
    }
    // C12 once more on the state after the continuation and its restart (only when the continuation itself
    // removes nothing: whatever is missing from a batch then is missing because of the crash)
    if !out.cont_used.iter().any(|o| matches!(o, Op::Truncate { .. } | Op::Delete { .. })) && cd.world.log.is_some() {
        if let Ok(fobs) = cd.world.observe() {
            if let Some(msg) = batch_atomicity(d, b, &fobs) {
                out.failures.push(fail("C12", "batch-torn-after-recovery-and-continuation", b, format!("{where_}, recovery, {} and a restart: {msg}", out.cont_used.iter().map(|o| o.short()).collect::<Vec<_>>().join(", "))));
            }
        }
    }
    out
}

/// For a crash inside a multi-frame entry: the continuation that writes, right behind the torn fragments, one
/// entry of exactly the size the torn entry still lacks (then restarts).
pub fn continuation_filling_the_gap(d: &Driver, b: usize, image: &Image) -> Option<Vec<Op>> {
    let Op::Append { q, lens, .. } = &d.steps.get(b)?.op else { return None };
    let name_len = d.names[*q].len();
    let p = crate::walparse::parse(image);
    if !p.problems.iter().any(|x| x.contains("ends inside an entry")) {
        return None;
    }
    let written: usize = p.frames.iter().filter(|f| f.entry == p.entries.len()).map(|f| f.len).sum();
    let total = crate::walparse::append_entry_len(name_len, lens);
    let missing = total.checked_sub(written)?;
    let len = missing.checked_sub(23 + name_len)?;
    Some(vec![Op::Append { q: *q, pos: None, lens: vec![len as u32], uid: 6_000_001 }, Op::Restart { policy: None }])
}

fn check_c04_cont(op: &Op, o: &Outcome, cd: &Driver, hw: &BTreeMap<String, u64>, failures: &mut Vec<Failure>, b: usize, where_: &str) {
    if let (Op::Append { q, lens, .. }, Outcome::Appended { last: Some(last), .. }) = (op, o) {
        if let Some(h) = hw.get(&cd.names[*q]) {
            let first = last.saturating_add(1) - (lens.len() as u64).min(last.saturating_add(1));
            // only meaningful while the queue is still the incarnation that was alive at the crash
            let same_incarnation = !cd.steps.iter().any(|s| matches!(&s.op, Op::Delete { q: dq } if dq == q) && !s.outcome.is_err());
            if same_incarnation && first <= *h {
                failures.push(fail("C04", "position-reused-after-crash", b, format!("{where_}: after recovery {} was assigned positions {}..={} although position {} had already been appended or truncated-to", op.short(), first, last, h)));
            }
        }
    }
}

/// Continuation: an append on every surviving queue, a truncate, some random ops, a final restart.
fn gen_continuation(cd: &mut Driver, seed: u64, hw: &BTreeMap<String, u64>, failures: &mut Vec<Failure>, b: usize, where_: &str) -> Vec<Op> {
    let mut rng = Rng::new(seed);
    let mut ops: Vec<Op> = Vec::new();
    let mut uid = 1_000_000u32 + (seed as u32 % 1000) * 100;
    let nq = cd.names.len();
    let mut run = |cd: &mut Driver, op: Op, ops: &mut Vec<Op>, failures: &mut Vec<Failure>| {
        if cd.stopped {
            return;
        }
        let o = cd.step(op.clone());
        check_c04_cont(&op, &o, cd, hw, failures, b, where_);
        ops.push(op);
    };
    let existing: Vec<usize> = (0..nq).filter(|&q| cd.model.queues.contains_key(&cd.names[q])).collect();
    for &q in &existing {
        uid += 2;
        let len = if rng.chance(1, 4) { 20_000 + rng.below(30_000) as u32 } else { rng.below(200) as u32 };
        run(cd, Op::Append { q, pos: None, lens: vec![len], uid }, &mut ops, failures);
    }
    let cfg = GenCfg { n_ops: 0, ..crate::gen::swarm(&mut rng, Profile::AlwaysFlush) };
    let mut cfg = cfg;
    cfg.n_queues = nq;
    cfg.w[5] = 2;
    let mut g = Gen::new(cfg, rng.fork(7));
    g.next_uid = (uid >> 1) + 10;
    let extra = 1 + rng.usize_below(6);
    for _ in 0..extra {
        if cd.stopped {
            break;
        }
        let op = g.next(cd);
        run(cd, op, &mut ops, failures);
    }
    if rng.chance(3, 10) && !existing.is_empty() {
        // force a roll-over
        let q = *rng.pick(&existing);
        if cd.model.queues.contains_key(&cd.names[q]) {
            uid = (g.next_uid << 1) + 100;
            run(cd, Op::Append { q, pos: None, lens: vec![100_000, 40_000], uid }, &mut ops, failures);
        }
    }
    run(cd, Op::Restart { policy: None }, &mut ops, failures);
    // and use every queue once more: a position lost by that restart would be handed out again here
    let existing: Vec<usize> = (0..nq).filter(|&q| cd.model.queues.contains_key(&cd.names[q])).collect();
    uid = (g.next_uid << 1) + 300;
    for &q in &existing {
        uid += 2;
        run(cd, Op::Append { q, pos: None, lens: vec![rng.below(50) as u32], uid }, &mut ops, failures);
    }
    ops
}

// ------------------------------------------------------------------ crash-point enumeration

pub struct Point {
    pub idx: usize,
    pub byte: Option<usize>,
    /// op in flight (== number of ops for the point after the last effect)
    pub b: usize,
    pub eff_in_op: usize,
    pub class: u8,
}

/// Torn-write offsets: every byte for small writes in the thorough tier, boundary-biased sample otherwise.
pub fn torn_offsets(len: usize, off_in_file: usize, thorough: bool, rng: &mut Rng) -> Vec<usize> {
    let mut v: BTreeSet<usize> = BTreeSet::new();
    if len <= 1 {
        return Vec::new();
    }
    if thorough && len <= 512 {
        return (1..len).collect();
    }
    for c in [1usize, 3, 4, 6, 7, 8, 11, 12, 18, 19, 23, len / 2, len.saturating_sub(8), len.saturating_sub(7), len - 1] {
        if c >= 1 && c < len {
            v.insert(c);
        }
    }
    // block edges inside the write
    let first_edge = BLOCK - off_in_file % BLOCK;
    let mut e = first_edge;
    while e < len {
        for c in [e.saturating_sub(7), e.saturating_sub(1), e, e + 1, e + 6, e + 7, e + 8] {
            if c >= 1 && c < len {
                v.insert(c);
            }
        }
        e += BLOCK;
    }
    let extra = if thorough { 64 } else { 4 };
    for _ in 0..extra {
        v.insert(1 + rng.usize_below(len - 1));
    }
    v.into_iter().collect()
}

/// All crash points of the phase-A trace (dedup: a boundary is listed when the image or the op in flight changed).
pub fn enumerate_points(d: &Driver, thorough: bool, rng: &mut Rng) -> Vec<Point> {
    let fs = d.world.fs.borrow();
    let mut pts = Vec::new();
    let mut last_b: Option<usize> = None;
    let mut dirty = true;
    for (i, e) in fs.trace.iter().enumerate() {
        let b = e.op as usize;
        let eff_in_op = i - d.steps[b].eff_start;
        if dirty || last_b != Some(b) {
            pts.push(Point { idx: i, byte: None, b, eff_in_op, class: 0 });
            last_b = Some(b);
            dirty = false;
        }
        if let Eff::Write { data, off, .. } = &e.eff {
            for n in torn_offsets(data.len(), *off as usize, thorough, rng) {
                pts.push(Point { idx: i, byte: Some(n), b, eff_in_op, class: 1 });
            }
        }
        if e.eff.is_mutating() {
            dirty = true;
        }
    }
    pts.push(Point { idx: fs.trace.len(), byte: None, b: d.steps.len(), eff_in_op: 0, class: 0 });
    pts
}

/// Incremental image builder over the trace (cheap per point).
pub struct ImageWalker<'a> {
    trace: &'a [Effect],
    st: FsState,
    pos: usize,
}

impl<'a> ImageWalker<'a> {
    pub fn new(trace: &'a [Effect], base: &FsState) -> Self {
        ImageWalker { trace, st: base.clone(), pos: 0 }
    }
    pub fn image_at(&mut self, idx: usize, byte: Option<usize>) -> Image {
        assert!(idx >= self.pos);
        while self.pos < idx {
            self.st.apply(&self.trace[self.pos].eff);
            self.pos += 1;
        }
        match (byte, self.trace.get(idx)) {
            (Some(n), Some(e)) => {
                let mut st2 = self.st.clone();
                apply_partial(&mut st2, &e.eff, n);
                st2.to_image()
            }
            _ => self.st.to_image(),
        }
    }
}

pub fn point_signature(d: &Driver, p: &Point, matched: &Option<Matched>) -> u64 {
    let fs = d.world.fs.borrow();
    let mut dg = crate::prng::Digest::new();
    let eff = fs.trace.get(p.idx);
    dg.u64(eff.map(|e| e.eff.class() as u64).unwrap_or(99));
    dg.u64(if p.b < d.steps.len() { d.steps[p.b].op.kind() as u64 } else { 9 });
    dg.u64(match p.byte {
        None => 0,
        Some(n) if n < 4 => 1,
        Some(n) if n < 7 => 2,
        Some(n) if n < 19 => 3,
        Some(_) => 4,
    });
    if let Some(Effect { eff: Eff::Write { off, data, .. }, .. }) = eff {
        dg.u64((*off as usize % BLOCK / 4096) as u64);
        dg.u64((data.len().min(70000) / 5000) as u64);
    }
    dg.u64(match matched {
        Some(Matched::Exact(j)) => (*j == p.b) as u64,
        Some(Matched::Partial) => 2,
        _ => 3,
    });
    dg.u64(d.probes.max_files.min(6));
    dg.u64(d.steps[p.b.min(d.steps.len() - 1)].policy.tag());
    dg.0
}

// ------------------------------------------------------------------ C03: persisted-superset oracle

#[derive(Clone, Copy, PartialEq, Eq, PartialOrd, Ord, Debug)]
pub enum Level {
    Proc,
    Power,
}

pub fn obligation(step: &crate::run::Step) -> Option<Level> {
    if step.outcome.is_err() || step.expected.is_err() {
        return None;
    }
    match (&step.op, &step.expected) {
        (Op::Create { .. }, _) | (Op::Delete { .. }, _) => Some(Level::Power),
        (Op::Persist { fsync: true }, _) => Some(Level::Power),
        (Op::Persist { fsync: false }, _) => Some(Level::Proc),
        (Op::Append { .. }, Outcome::Appended { last: Some(_), .. }) | (Op::Truncate { .. }, _) => match step.policy {
            Policy::Always { fsync: true } => Some(Level::Power),
            Policy::Always { fsync: false } => Some(Level::Proc),
            _ => None,
        },
        _ => None,
    }
}

/// Index of the last op < b whose return obliges persistence at `level` or stronger.
pub fn persist_point(d: &Driver, b: usize, level: Level) -> Option<usize> {
    (0..b.min(d.steps.len())).rev().find(|&i| obligation(&d.steps[i]).map(|l| l >= level).unwrap_or(false))
}

/// PS(P): the recovered state contains everything persisted at P and invents nothing.
pub fn persisted_superset(d: &Driver, p: Option<usize>, b: usize, obs: &Obs) -> Option<(String, String)> {
    let n = d.steps.len();
    let mp = &d.models[p.map(|p| p + 1).unwrap_or(0)];
    let lo = p.map(|p| p + 1).unwrap_or(0);
    let hi = b.min(n.saturating_sub(1));
    let later: Vec<&Op> = if lo <= hi && n > 0 { d.steps[lo..=hi].iter().map(|s| &s.op).collect() } else { Vec::new() };
    let qidx = |name: &str| d.names.iter().position(|x| x == name);
    // 1. existence
    for (name, mq) in &mp.queues {
        let q = qidx(name);
        let deleted_later = later.iter().any(|op| matches!(op, Op::Delete { q: dq } if Some(*dq) == q));
        if deleted_later {
            continue;
        }
        let Some(oq) = obs.queues.get(name) else {
            return Some(("persisted-queue-missing".into(), format!("queue (name {} B) existed at the persist point (op {:?}) and is not deleted afterwards, but is absent after recovery", name.len(), p)));
        };
        // 2. records
        let max_trunc: Option<u64> = later.iter().filter_map(|op| match op { Op::Truncate { q: tq, upto } if Some(*tq) == q => Some(*upto), _ => None }).max();
        let must: Vec<Rec> = mq.recs.iter().filter(|r| max_trunc.map(|t| r.pos > t).unwrap_or(true)).copied().collect();
        let got: Vec<Rec> = oq.recs.iter().filter(|r| must.binary_search_by_key(&r.pos, |x| x.pos).is_ok()).copied().collect();
        if got != must {
            let missing = must.iter().find(|r| !oq.recs.contains(r)).map(|r| r.pos);
            return Some(("persisted-record-lost".into(), format!("queue (name {} B): {} records persisted at op {:?} and not truncated afterwards, {} of them recovered intact (first missing/altered position {:?})", name.len(), must.len(), p, got.iter().filter(|r| must.contains(r)).count(), missing)));
        }
        // 3. next position
        let next = oq.last_position.map(|x| x + 1).unwrap_or(0);
        if next < mq.next {
            return Some(("persisted-position-regressed".into(), format!("queue (name {} B): next position {} after recovery, {} at the persist point (op {:?})", name.len(), next, mq.next, p)));
        }
    }
    for name in obs.queues.keys() {
        if !mp.queues.contains_key(name) {
            let q = qidx(name);
            let created_later = later.iter().any(|op| matches!(op, Op::Create { q: cq } if Some(*cq) == q));
            if !created_later {
                return Some(("deleted-queue-reappeared".into(), format!("queue (name {} B) did not exist at the persist point (op {:?}) and is not created afterwards, but exists after recovery", name.len(), p)));
            }
        }
    }
    // 4. nothing invented
    for (name, oq) in &obs.queues {
        let Some(q) = qidx(name) else {
            return Some(("invented-queue".into(), format!("recovered an unknown queue name ({} B)", name.len())));
        };
        // records appended to this name since its last deletion at or before P
        let start = (0..lo.min(n)).rev().find(|&i| matches!(&d.steps[i].op, Op::Delete { q: dq } if *dq == q) && !d.steps[i].expected.is_err()).map(|i| i + 1).unwrap_or(0);
        let mut allowed: BTreeSet<Rec> = BTreeSet::new();
        // a driver that adopted a recovered log starts from a non-empty state
        if start == 0 {
            if let Some(q0) = d.models[0].queues.get(name) {
                allowed.extend(q0.recs.iter().copied());
            }
        }
        for s in d.steps.iter().take(hi + 1).skip(start) {
            if let (Op::Append { q: aq, lens, uid, .. }, Outcome::Appended { last: Some(last), .. }) = (&s.op, &s.expected) {
                if *aq == q {
                    let first = last.wrapping_add(1).wrapping_sub(lens.len() as u64);
                    for (k, &l) in lens.iter().enumerate() {
                        allowed.insert(Rec::of(first.wrapping_add(k as u64), &crate::model::payload(*uid, k as u32, l as usize)));
                    }
                }
            }
        }
        let mut prev: Option<u64> = None;
        for r in &oq.recs {
            if !allowed.contains(r) {
                return Some(("invented-record".into(), format!("queue (name {} B): recovered record at position {} ({} B) was never appended to this incarnation", name.len(), r.pos, r.len)));
            }
            if prev.map(|p| r.pos <= p).unwrap_or(false) {
                return Some(("positions-not-increasing".into(), format!("queue (name {} B): positions not strictly increasing at {}", name.len(), r.pos)));
            }
            prev = Some(r.pos);
        }
    }
    None
}

pub fn test_c03(d: &Driver, case: &Case, b: usize, image: &Image, level: Level, where_: &str) -> (Vec<Failure>, bool) {
    let n = d.steps.len();
    let policy = if b < n { d.steps[b].policy } else { d.steps.last().map(|s| s.policy).unwrap_or(case.policy) };
    let p = persist_point(d, b, level);
    let mut failures = Vec::new();
    match recover(image, &d.names, policy, &case.knobs) {
        Err((e, _)) => {
            if p.is_some() {
                failures.push(fail("C03", "open-failed-after-persist", b, format!("{where_}: {} although op {:?} had been persisted", open_fail_text(&e), p)));
            }
            (failures, false)
        }
        Ok((_w, obs)) => {
            if let Some((clause, msg)) = persisted_superset(d, p, b, &obs) {
                failures.push(fail("C03", &clause, b, format!("{where_} (persist point: op {:?}, loss model {:?}): {msg}", p, level)));
            }
            let prefix = matches!(match_allowed(d, b, &obs), Matched::Exact(_) | Matched::Partial);
            (failures, prefix)
        }
    }
}

/// "Whatever was buffered, rolled over or garbage-collected afterwards": recover from `image`, keep
/// working on the recovered log (same policy), and crash again after every continuation op; each
/// second recovery must contain everything that was on disk at the first recovery or persisted since.
pub fn test_c03_continue(d: &Driver, case: &Case, b: usize, image: &Image, cont: Cont, where_: &str) -> (Vec<Failure>, Vec<Op>) {
    let n = d.steps.len();
    let policy = if b < n { d.steps[b].policy } else { d.steps.last().map(|s| s.policy).unwrap_or(case.policy) };
    let mut failures = Vec::new();
    let Ok((w, obs)) = recover(image, &d.names, policy, &case.knobs) else { return (failures, Vec::new()) };
    let mut model = d.models[b.min(n)].clone();
    model.rebase(&obs);
    let mut cd = Driver::adopt(w, model, case.probe_seed ^ 0xC03C ^ b as u64);
    cd.light = true;
    let planned: Vec<Op> = match cont {
        Cont::Explicit(ops) => ops.to_vec(),
        Cont::Generate(_) => Vec::new(),
    };
    let mut gen = if let Cont::Generate(seed) = cont {
        let mut rng = Rng::new(seed);
        let mut cfg = crate::gen::swarm(&mut rng, Profile::AllPolicies);
        cfg.n_queues = cd.names.len();
        cfg.w = [10, 3, 40, 10, 12, 0, 3, 0];
        let mut g = Gen::new(cfg, rng.fork(3));
        g.next_uid = 600_000 + (seed as u32 % 1000) * 50;
        Some((g, 3 + (seed % 4) as usize))
    } else {
        None
    };
    let mut used: Vec<Op> = Vec::new();
    let mut k = 0usize;
    loop {
        let op = match &mut gen {
            Some((g, count)) => {
                if k >= *count { break; }
                g.next(&cd)
            }
            None => match planned.get(k) {
                Some(op) => op.clone(),
                None => break,
            },
        };
        k += 1;
        cd.step(op.clone());
        used.push(op);
        if cd.stopped {
            break; // the continuation itself misbehaves: C02's business, no C03 verdict from here on
        }
        // process crash right after this call returned
        let img2 = cd.world.image();
        let done = cd.steps.len();
        let p = persist_point(&cd, done, Level::Proc);
        match recover(&img2, &cd.names, cd.world.policy, &case.knobs) {
            Err((e, _)) => {
                failures.push(fail("C03", "open-failed-after-second-crash", b, format!("{where_}, recovery, then {} more calls and a second crash: {}", done, open_fail_text(&e))));
                break;
            }
            Ok((_w2, obs2)) => {
                if let Some((clause, msg)) = persisted_superset(&cd, p, done, &obs2) {
                    failures.push(fail("C03", &format!("{clause}-after-second-crash"), b, format!("{where_}, recovery, then {} more calls ({}) and a second crash (persist point in the continuation: {:?}): {msg}", done, used.iter().map(|o| o.short()).collect::<Vec<_>>().join(", "), p)));
                    break;
                }
            }
        }
    }
    (failures, used)
}

// ------------------------------------------------------------------ replay entry point

pub fn evaluate_crash(prop: &str, case: &Case, fault: &Fault) -> Vec<Failure> {
    let Fault::Crash { at, second, cont } = fault else { return Vec::new() };
    let d = crate::fault::eval_hist(case);
    if !d.conformance_ok() {
        return Vec::new();
    }
    let Some(idx) = global_index(&d, at) else { return Vec::new() };
    let b = if at.op < d.steps.len() { at.op } else { d.steps.len() };
    // the crash point must really belong to op b
    if at.op < d.steps.len() && idx >= d.steps[at.op].eff_end && !(idx == d.steps[at.op].eff_end && at.op + 1 == d.steps.len()) {
        // pointing past the op's effects: treat as the boundary before the next op's first effect
    }
    let where_ = format!("crash at effect {} of op {} (byte {:?})", at.eff_in_op, at.op, at.byte);
    let mut out: Vec<Failure> = Vec::new();
    match prop {
        "C03" => {
            let (image, level) = match at.powerloss {
                Some(seed) => {
                    let fs = d.world.fs.borrow();
                    (powerloss_image(&fs.trace, &fs.bases[0].1, idx, at.byte, seed), Level::Power)
                }
                None => (os_image_at(&d, idx, at.byte), Level::Proc),
            };
            let (f, _) = test_c03(&d, case, b, &image, level, &where_);
            out.extend(f);
            if !cont.is_empty() {
                let (f2, _) = test_c03_continue(&d, case, b, &image, Cont::Explicit(cont), &where_);
                out.extend(f2);
            }
        }
        "C12" if at.powerloss.is_some() => {
            let image = {
                let fs = d.world.fs.borrow();
                powerloss_image(&fs.trace, &fs.bases[0].1, idx, at.byte, at.powerloss.unwrap())
            };
            let policy = if b < d.steps.len() { d.steps[b].policy } else { case.policy };
            if let Ok((_w, obs)) = recover(&image, &d.names, policy, &case.knobs) {
                if let Some(msg) = batch_atomicity(&d, b, &obs) {
                    out.push(fail("C12", "batch-torn-by-power-loss", b, msg));
                }
            }
        }
        _ => {
            let image = os_image_at(&d, idx, at.byte);
            let mut stats = CrashStats::default();
            let o = test_process_crash(&d, case, b, &image, Cont::Explicit(cont), &mut stats, *second);
            out.extend(o.failures);
        }
    }
    let _ = mix(&[0]);
    if prop == "C07" {
        // torn-tail variant of the alignment grid: the usability clauses of the crash oracle, re-filed
        return out.into_iter().filter(|f| f.prop == "C02").map(|f| Failure { prop: "C07", clause: format!("torn-tail-{}", f.clause), op_index: f.op_index, detail: f.detail }).collect();
    }
    out.into_iter().filter(|f| f.prop == prop).collect()
}

// ------------------------------------------------------------------ C06 on the log returned by a crash recovery

/// Upper bound of C06 evaluated on a recovered log: no WAL file older than both the file recovery
/// attributes the oldest retained record to and the file in which recovery positioned the writer.
/// Attribution follows the crate's documented-by-behaviour rule for replay (the file the reader sat in
/// when it started looking for the entry = the file in which the previous complete entry ended), computed
/// here by the independent parser over the crash image. This tolerates the one known quirk (an entry
/// preceded by orphan continuation frames of a garbage-collected entry pins the file holding those
/// frames) and nothing beyond it.
pub fn c06_after_recovery(w: &World, obs: &Obs, image: &Image) -> Option<String> {
    let fs = w.fs.borrow();
    let listing: Vec<u64> = fs.st.wal_names().iter().filter_map(|n| crate::simfs::wal_number(n)).collect();
    // the hand-off seeks (into_writer + forward) are the last seeks before recovery's first write, file creation or removal
    let first_write = fs.trace.iter().position(|e| matches!(e.eff, Eff::Write { .. } | Eff::Create { .. } | Eff::Unlink { .. })).unwrap_or(fs.trace.len());
    let resume = fs.trace[..first_write].iter().rev().find_map(|e| if let Eff::Seek { name, .. } = &e.eff { crate::simfs::wal_number(name) } else { None })?;
    let p = crate::walparse::parse(image);
    let file_no = |fi: usize| -> Option<u64> { p.files.get(fi).and_then(|n| crate::simfs::wal_number(n)) };
    // replay attribution of every record of every complete Append entry
    let mut attr: BTreeMap<(String, u64, u64), u64> = BTreeMap::new();
    let mut reader_file = file_no(0)?;
    for e in &p.entries {
        if let crate::walparse::EntryKind::Append { queue, recs, .. } = &e.kind {
            for r in recs {
                let slot = attr.entry((queue.clone(), r.pos, r.hash)).or_insert(reader_file);
                *slot = (*slot).min(reader_file);
            }
        }
        reader_file = file_no(p.frames[e.last_frame].file)?;
    }
    let mut oldest: Option<u64> = None;
    for (name, q) in &obs.queues {
        for r in &q.recs {
            let f = *attr.get(&(name.clone(), r.pos, r.hash))?; // not found by the parser: no verdict
            oldest = Some(oldest.map(|o| o.min(f)).unwrap_or(f));
        }
    }
    let bound = oldest.map(|o| o.min(resume)).unwrap_or(resume);
    let first = *listing.first()?;
    if first < bound {
        return Some(format!("after recovery the directory still holds WAL file {first} although recovery attributes the oldest retained record to file {:?} and resumed writing in file {resume}; listing {:?}", oldest, listing));
    }
    None
}
