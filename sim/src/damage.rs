//! Damage engine (C08, C09, C10, C12): images are damaged between incarnations and recovered
//! with the real `open`.
use std::collections::{BTreeMap, BTreeSet};
use std::rc::Rc;

use crate::case::Case;
use crate::crash::{batch_atomicity, open_fail_text, recover};
use crate::fault::{DamageOp, Fault};
use crate::model::{Obs, Op, Outcome, Policy, Rec};
use crate::prng::Rng;
use crate::run::{Driver, Failure};
use crate::simfs::{wal_name, Image, Node, BLOCK, FILE_BYTES};
use crate::walparse::{encode_batch, encode_entry, parse, EntryKind, Parsed, WalBuilder, HDR};
use crate::world::OpenFail;

// ------------------------------------------------------------------ applying damage

fn wal_names_sorted(image: &Image) -> Vec<String> {
    crate::walparse::wal_files(image).into_iter().map(|f| f.0).collect()
}

fn file_mut<'a>(image: &'a mut Image, names: &[String], file: usize) -> Option<&'a mut Vec<u8>> {
    let name = names.get(file)?;
    match image.get_mut(name)? {
        Node::File(data) => Some(Rc::make_mut(data)),
        _ => None,
    }
}

pub fn apply_damage(image: &Image, ops: &[DamageOp]) -> Image {
    let mut img = image.clone();
    for op in ops {
        let names = wal_names_sorted(&img);
        match op {
            DamageOp::Flip { file, off, bit } => {
                if let Some(d) = file_mut(&mut img, &names, *file) {
                    if *off < d.len() {
                        d[*off] ^= 1 << (bit % 8);
                    }
                }
            }
            DamageOp::Garbage { file, off, len, seed } => {
                if let Some(d) = file_mut(&mut img, &names, *file) {
                    let mut rng = Rng::new(*seed);
                    let end = (*off + *len).min(d.len());
                    for b in d[(*off).min(end)..end].iter_mut() {
                        *b = rng.next_u64() as u8;
                    }
                }
            }
            DamageOp::Zero { file, off, len } => {
                if let Some(d) = file_mut(&mut img, &names, *file) {
                    let end = (*off + *len).min(d.len());
                    for b in d[(*off).min(end)..end].iter_mut() {
                        *b = 0;
                    }
                }
            }
            DamageOp::Bytes { file, off, data } => {
                if let Some(d) = file_mut(&mut img, &names, *file) {
                    let end = (*off + data.len()).min(d.len());
                    if *off < end {
                        d[*off..end].copy_from_slice(&data[..end - *off]);
                    }
                }
            }
            DamageOp::Truncate { file, len } => {
                if let Some(d) = file_mut(&mut img, &names, *file) {
                    d.truncate(*len);
                }
            }
            DamageOp::Remove { file } => {
                if let Some(n) = names.get(*file) {
                    img.remove(n);
                }
            }
            DamageOp::Duplicate { file, as_number } => {
                if let Some(n) = names.get(*file) {
                    if let Some(node) = img.get(n).cloned() {
                        img.entry(wal_name(*as_number)).or_insert(node);
                    }
                }
            }
            DamageOp::SwapBlocks { file_a, block_a, file_b, block_b } => {
                let get = |img: &Image, f: usize, b: usize| -> Option<Vec<u8>> {
                    let n = names.get(f)?;
                    if let Node::File(d) = img.get(n)? {
                        if (b + 1) * BLOCK <= d.len() {
                            return Some(d[b * BLOCK..(b + 1) * BLOCK].to_vec());
                        }
                    }
                    None
                };
                if let (Some(a), Some(b)) = (get(&img, *file_a, *block_a), get(&img, *file_b, *block_b)) {
                    if let Some(d) = file_mut(&mut img, &names, *file_a) {
                        d[block_a * BLOCK..(block_a + 1) * BLOCK].copy_from_slice(&b);
                    }
                    if let Some(d) = file_mut(&mut img, &names, *file_b) {
                        d[block_b * BLOCK..(block_b + 1) * BLOCK].copy_from_slice(&a);
                    }
                }
            }
            DamageOp::SwapFiles { file_a, file_b } => {
                if let (Some(a), Some(b)) = (names.get(*file_a), names.get(*file_b)) {
                    if a != b {
                        let na = img.remove(a);
                        let nb = img.remove(b);
                        if let (Some(na), Some(nb)) = (na, nb) {
                            img.insert(a.clone(), nb);
                            img.insert(b.clone(), na);
                        }
                    }
                }
            }
            DamageOp::AppendGarbage { file, len, seed } => {
                if let Some(d) = file_mut(&mut img, &names, *file) {
                    let mut rng = Rng::new(*seed);
                    for _ in 0..*len {
                        d.push(rng.next_u64() as u8);
                    }
                }
            }
            DamageOp::AddEntry { name, kind, len, seed } => {
                let node = match kind {
                    0 => Node::Dir,
                    1 => Node::Symlink,
                    _ => {
                        let mut rng = Rng::new(*seed);
                        Node::File(Rc::new((0..*len).map(|_| rng.next_u64() as u8).collect()))
                    }
                };
                img.entry(name.clone()).or_insert(node);
            }
        }
    }
    img
}

// ------------------------------------------------------------------ generators

/// One in-place overwrite aimed with the parser's layout (C08).
pub fn aimed_overwrite(p: &Parsed, image: &Image, rng: &mut Rng) -> DamageOp {
    let nfiles = p.files.len().max(1);
    let file_len = |f: usize| -> usize {
        p.files.get(f).and_then(|n| image.get(n)).map(|n| if let Node::File(d) = n { d.len() } else { 0 }).unwrap_or(0)
    };
    let (file, off) = if p.frames.is_empty() || rng.chance(3, 10) {
        let f = rng.usize_below(nfiles);
        (f, rng.usize_below(file_len(f).max(1)))
    } else {
        let fr = rng.pick(&p.frames).clone();
        let within = match rng.below(12) {
            0 | 1 => rng.usize_below(4),             // crc
            2 | 3 => 4 + rng.usize_below(2),         // len (not covered by the crc)
            4 => 6,                                  // type
            5 => HDR,                                // first payload byte
            6 => HDR + fr.len.saturating_sub(1),     // last payload byte
            7 => HDR + rng.usize_below(fr.len.max(1).min(11)), // entry header fields
            8 => HDR + 11 + rng.usize_below(fr.len.max(12) - 11), // name / inner batch fields
            9 => HDR + fr.len + rng.usize_below(8),  // just after the frame (next header / padding)
            _ => HDR + rng.usize_below(fr.len.max(1)),
        };
        let mut off = fr.off + within;
        if rng.chance(1, 6) {
            // around block / file boundaries
            let edge = (fr.off / BLOCK + 1) * BLOCK;
            off = (edge + rng.usize_below(16)).saturating_sub(8);
        }
        (fr.file, off.min(file_len(fr.file).saturating_sub(1)))
    };
    // the type byte of a frame rewritten to another valid type (a continuation frame posing as a whole entry, ...)
    if !p.frames.is_empty() && rng.chance(1, 8) {
        let fr = rng.pick(&p.frames).clone();
        let other: Vec<u8> = (1u8..=4).filter(|t| *t != fr.ftype).collect();
        return DamageOp::Bytes { file: fr.file, off: fr.off + 6, data: vec![*rng.pick(&other)] };
    }
    match rng.below(10) {
        0..=2 => DamageOp::Flip { file, off, bit: rng.below(8) as u8 },
        3 => DamageOp::Garbage { file, off, len: 1, seed: rng.next_u64() },
        4 | 5 => DamageOp::Garbage { file, off, len: 2 + rng.usize_below(63), seed: rng.next_u64() },
        6 => DamageOp::Zero { file, off, len: 2 + rng.usize_below(63) },
        7 => {
            let b = off / BLOCK * BLOCK;
            if rng.chance(1, 2) { DamageOp::Garbage { file, off: b, len: BLOCK, seed: rng.next_u64() } } else { DamageOp::Zero { file, off: b, len: BLOCK } }
        }
        8 => DamageOp::Zero { file, off, len: 1 },
        _ => {
            let len = BLOCK + rng.usize_below(2 * BLOCK);
            if rng.chance(1, 2) { DamageOp::Garbage { file, off, len, seed: rng.next_u64() } } else { DamageOp::Zero { file, off, len } }
        }
    }
}

/// The six single-frame payload/CRC alterations of C09 (variant 0..6).
pub fn frame_payload_damage(p: &Parsed, frame: usize, variant: u8, rng: &mut Rng) -> Option<DamageOp> {
    let fr = p.frames.get(frame)?;
    let file = fr.file;
    Some(match variant {
        0 => DamageOp::Flip { file, off: fr.off + rng.usize_below(4), bit: rng.below(8) as u8 },
        1 if fr.len > 0 => DamageOp::Flip { file, off: fr.off + HDR, bit: rng.below(8) as u8 },
        2 if fr.len > 0 => DamageOp::Flip { file, off: fr.off + HDR + fr.len - 1, bit: rng.below(8) as u8 },
        3 if fr.len > 0 => DamageOp::Flip { file, off: fr.off + HDR + rng.usize_below(fr.len), bit: rng.below(8) as u8 },
        4 if fr.len > 0 => DamageOp::Garbage { file, off: fr.off + HDR, len: fr.len, seed: rng.next_u64() | 1 },
        5 if fr.len > 0 => DamageOp::Zero { file, off: fr.off + HDR, len: fr.len },
        // empty payload: only the checksum can be altered
        _ => DamageOp::Flip { file, off: fr.off + rng.usize_below(4), bit: rng.below(8) as u8 },
    })
}

/// Header damage of one frame (len, type, crc) for C12.
pub fn frame_header_damage(p: &Parsed, frame: usize, variant: u8, rng: &mut Rng) -> Option<DamageOp> {
    let fr = p.frames.get(frame)?;
    let file = fr.file;
    Some(match variant % 6 {
        0 => DamageOp::Flip { file, off: fr.off + 4 + rng.usize_below(2), bit: rng.below(8) as u8 },
        1 => DamageOp::Flip { file, off: fr.off + 6, bit: rng.below(3) as u8 },
        2 => DamageOp::Garbage { file, off: fr.off, len: HDR, seed: rng.next_u64() },
        3 => DamageOp::Zero { file, off: fr.off, len: HDR },
        // the type byte rewritten to another *valid* frame type (First <-> Full, Middle <-> Last, ...)
        4 => {
            let other: Vec<u8> = (1u8..=4).filter(|t| *t != fr.ftype).collect();
            DamageOp::Bytes { file, off: fr.off + 6, data: vec![*rng.pick(&other)] }
        }
        // an invalid frame type
        _ => DamageOp::Bytes { file, off: fr.off + 6, data: vec![*rng.pick(&[0u8, 5, 9, 0x80, 0xFF])] },
    })
}

/// Structural damage for C10 class (a).
pub fn structural_damage(p: &Parsed, image: &Image, rng: &mut Rng) -> DamageOp {
    let nfiles = p.files.len().max(1);
    let file = rng.usize_below(nfiles);
    let next_number = 50 + rng.below(1000);
    match rng.below(14) {
        0 => DamageOp::Truncate { file, len: *rng.pick(&[0usize, 1, 6, 7, 100, BLOCK - 1, BLOCK, BLOCK + 1, 2 * BLOCK + 17, FILE_BYTES - 1]) },
        1 => DamageOp::Truncate { file, len: rng.usize_below(FILE_BYTES) },
        2 => DamageOp::Remove { file },
        3 => DamageOp::Remove { file: if rng.chance(1, 2) { 0 } else { nfiles - 1 } },
        4 => DamageOp::Duplicate { file, as_number: next_number },
        5 => DamageOp::Duplicate { file, as_number: rng.below(nfiles as u64 + 2) },
        6 => DamageOp::SwapBlocks { file_a: file, block_a: rng.usize_below(4), file_b: rng.usize_below(nfiles), block_b: rng.usize_below(4) },
        7 => DamageOp::SwapFiles { file_a: file, file_b: rng.usize_below(nfiles) },
        8 => DamageOp::AppendGarbage { file, len: *rng.pick(&[1usize, 7, 100, BLOCK, BLOCK + 5]), seed: rng.next_u64() },
        9 => DamageOp::AddEntry { name: rng.pick(&["wal-0000000000000000000", "wal-000000000000000000001", "lost+found", "wal-00000000000000000abc", ".wal-00000000000000000001", "wal-99999999999999999999", "wal-18446744073709551616", "wal-+0000000000000000007", "wal--0000000000000000007", "wal\u{e9}0000000000000000001", "wa\u{e9}-0000000000000000001", "wal-\u{e9}000000000000000001", "wal-000000000000000000\u{e9}", "\u{1F600}al-0000000000000001"]).to_string(), kind: rng.below(3) as u8, len: rng.usize_below(300), seed: rng.next_u64() },
        10 => DamageOp::AddEntry { name: wal_name(next_number), kind: rng.below(2) as u8, len: 0, seed: 0 },
        11 => DamageOp::AddEntry { name: wal_name(*rng.pick(&[u64::MAX, u64::MAX - 1, 0, 1 << 63])), kind: 2, len: *rng.pick(&[0usize, 5, BLOCK, FILE_BYTES]), seed: rng.next_u64() },
        _ => aimed_overwrite(p, image, rng),
    }
}

/// Raw images for C10 classes (b) PRNG bytes / shuffled valid frames and (c) CRC-valid adversarial entries.
pub fn raw_image(seed: u64, class: u8) -> Image {
    let mut rng = Rng::new(seed);
    let mut image = Image::new();
    match class {
        0 => {
            // PRNG bytes, odd lengths
            let n = 1 + rng.usize_below(3);
            for i in 0..n {
                let len = *rng.pick(&[0usize, 1, 6, 7, 8, BLOCK - 1, BLOCK, BLOCK + 1, 2 * BLOCK, FILE_BYTES, FILE_BYTES + 9]);
                let zero_rate = rng.below(4);
                let data: Vec<u8> = (0..len).map(|_| if rng.below(4) < zero_rate { 0 } else { rng.next_u64() as u8 }).collect();
                image.insert(wal_name(i as u64 * (1 + rng.below(3))), Node::File(Rc::new(data)));
            }
        }
        1 => {
            // valid frames in PRNG order (types and lengths random, CRC valid)
            let mut b = WalBuilder::new();
            let n = 1 + rng.usize_below(200);
            for _ in 0..n {
                let ftype = 1 + rng.below(4) as u8;
                let max = b.max_payload();
                let len = match rng.below(4) { 0 => 0, 1 => rng.usize_below(40.min(max + 1)), 2 => max, _ => rng.usize_below(max + 1) };
                let payload: Vec<u8> = if rng.chance(1, 2) {
                    let q = format!("q{}", rng.below(3));
                    let mut e = encode_entry(1 + rng.below(4) as u8, rng.below(20), q.as_bytes(), &[]);
                    e.resize(len.max(e.len()).min(max), 0);
                    e.truncate(len);
                    e
                } else {
                    (0..len).map(|_| rng.next_u64() as u8).collect()
                };
                b.raw_frame(ftype, &payload, None);
            }
            image = b.into_image(rng.below(3));
        }
        _ => {
            // structure-aware forgery: CRC-valid frames, adversarial entry bytes
            let mut b = WalBuilder::new();
            let n = 1 + rng.usize_below(12);
            let big = [u64::MAX, u64::MAX - 1, 1 << 63, (1 << 62) + 5, 0, 1, 7];
            for _ in 0..n {
                let q = format!("q{}", rng.below(3));
                match rng.below(16) {
                    0 => b.entry(&encode_entry(9, 3, q.as_bytes(), &[])), // unknown record type
                    1 => b.entry(&encode_entry(2, *rng.pick(&big), q.as_bytes(), &[])),
                    2 => b.entry(&encode_entry(1, *rng.pick(&big), q.as_bytes(), &[])),
                    3 => b.entry(&encode_entry(3, *rng.pick(&big), q.as_bytes(), &[])),
                    4 => {
                        let p0 = *rng.pick(&big);
                        let payload = vec![1u8; rng.usize_below(50)];
                        b.entry(&encode_entry(4, p0, q.as_bytes(), &encode_batch(&[(p0, &payload[..])])));
                    }
                    5 => {
                        // queue_len beyond body
                        let mut e = encode_entry(4, 0, q.as_bytes(), &[]);
                        e[9] = 0xFF;
                        e[10] = 0xFF;
                        b.entry(&e);
                    }
                    6 => b.entry(&encode_entry(2, 0, &[0xFF, 0xFE, 0x80], &[])), // non-UTF-8 name
                    7 => {
                        // inner batch length past the end
                        let mut body = encode_batch(&[(0, &[1u8, 2, 3][..])]);
                        body[8..12].copy_from_slice(&u32::MAX.to_le_bytes());
                        b.entry(&encode_entry(4, 0, q.as_bytes(), &body));
                    }
                    8 => {
                        // decreasing positions inside a batch / across entries
                        let body = encode_batch(&[(5, &[1u8][..]), (3, &[2u8][..]), (3, &[3u8][..])]);
                        b.entry(&encode_entry(4, 5, q.as_bytes(), &body));
                    }
                    9 => {
                        // First without Last, then something else
                        b.raw_frame(2, &encode_entry(4, 0, q.as_bytes(), &[])[..], None);
                    }
                    10 => b.raw_frame(4, &[1, 2, 3], None), // Last without First
                    11 => {
                        for _ in 0..2000 {
                            b.raw_frame(1, &[], None); // empty Full frames
                        }
                    }
                    12 => {
                        let payload = vec![7u8; 10 + rng.usize_below(100)];
                        let p0 = rng.below(10);
                        b.entry(&encode_entry(4, p0, q.as_bytes(), &encode_batch(&[(p0, &payload[..]), (p0 + 1, &payload[..1])])));
                    }
                    13 => b.entry(&encode_entry(4, *rng.pick(&big), format!("fresh{}", rng.below(3)).as_bytes(), &[])), // batch without items, queue unknown
                    _ => b.entry(&encode_entry(4, 0, q.as_bytes(), &[1, 2, 3, 4, 5])), // truncated inner header
                }
            }
            image = b.into_image(*rng.pick(&[0u64, 0, 5, u64::MAX - 3]));
        }
    }
    image
}

// ------------------------------------------------------------------ oracles

/// A[queue] = every (position, payload) ever successfully appended to that queue name.
pub fn appended_sets(d: &Driver) -> BTreeMap<String, BTreeSet<Rec>> {
    let mut a: BTreeMap<String, BTreeSet<Rec>> = BTreeMap::new();
    for s in &d.steps {
        if let (Op::Append { q, lens, uid, .. }, Outcome::Appended { last: Some(last), .. }) = (&s.op, &s.expected) {
            let first = last.wrapping_add(1).wrapping_sub(lens.len() as u64);
            let set = a.entry(d.names[*q].clone()).or_default();
            for (k, &l) in lens.iter().enumerate() {
                set.insert(Rec::of(first.wrapping_add(k as u64), &crate::model::payload(*uid, k as u32, l as usize)));
            }
        }
    }
    a
}

pub fn c08_oracle(a: &BTreeMap<String, BTreeSet<Rec>>, obs: &Obs) -> Option<(String, String)> {
    for (name, oq) in &obs.queues {
        let set = a.get(name);
        let mut prev: Option<u64> = None;
        for r in &oq.recs {
            if !set.map(|s| s.contains(r)).unwrap_or(false) {
                // one of the complete, checksummed frames that the generator embeds in some payloads (model::FRAME_LIKE)
                if name == "zz" && (8_000_000..8_000_000 + (1 << 20)).contains(&r.pos) && r.len == 8 {
                    return Some(("embedded-frame".into(), format!("a CRC-valid frame that was only ever part of a record's *payload* was delivered as a record (queue \"zz\", position {})", r.pos)));
                }
                return Some(("invented-record".into(), format!("queue (name {} B) returned a record at position {} ({} B) that no append to this queue ever wrote", name.len(), r.pos, r.len)));
            }
            if prev.map(|p| r.pos <= p).unwrap_or(false) {
                return Some(("positions-not-increasing".into(), format!("queue (name {} B): position {} follows {}", name.len(), r.pos, prev.unwrap())));
            }
            prev = Some(r.pos);
        }
    }
    None
}

/// Every retained record whose append entry is not the damaged one must be recovered intact, in order.
pub fn c09_oracle(d: &Driver, damaged: &EntryKind, obs: &Obs) -> Option<(String, String)> {
    let hit: BTreeSet<(String, Rec)> = match damaged {
        EntryKind::Append { queue, recs, .. } => recs.iter().map(|r| (queue.clone(), *r)).collect(),
        _ => BTreeSet::new(),
    };
    for (name, mq) in &d.model.queues {
        let must: Vec<Rec> = mq.recs.iter().filter(|r| !hit.contains(&(name.clone(), **r))).copied().collect();
        if must.is_empty() {
            continue;
        }
        let Some(oq) = obs.queues.get(name) else {
            return Some(("retained-record-lost".into(), format!("queue (name {} B) with {} retained records whose append was not hit is missing after open", name.len(), must.len())));
        };
        let got: Vec<Rec> = oq.recs.iter().filter(|r| must.binary_search_by_key(&r.pos, |x| x.pos).is_ok()).copied().collect();
        if got != must {
            let missing = must.iter().find(|r| !oq.recs.contains(r)).map(|r| r.pos);
            return Some(("retained-record-lost".into(), format!("queue (name {} B): retained record at position {:?} was not recovered intact although its append entry was not damaged ({} of {} recovered)", name.len(), missing, got.iter().filter(|r| must.contains(r)).count(), must.len())));
        }
    }
    // "costs at most the one entry": the control entries that were *not* hit still take effect. A deleted queue may
    // come back only if the hit entry is a delete of that name; records removed by a truncate or a delete may come
    // back only if the hit entry is a truncate / delete / position entry of that queue.
    if !matches!(damaged, EntryKind::Undecodable) {
        for (name, oq) in &obs.queues {
            match d.model.queues.get(name) {
                None => {
                    if !matches!(damaged, EntryKind::Delete { queue, .. } if queue == name) {
                        return Some(("deleted-queue-reappeared".into(), format!("queue (name {} B, {} records) exists after open although it was deleted (or never created) and the damaged entry is not its delete entry: the damage cost more than the one entry it hit", name.len(), oq.recs.len())));
                    }
                }
                Some(mq) => {
                    let control_of_this_queue = matches!(damaged, EntryKind::Truncate { queue, .. } | EntryKind::Delete { queue, .. } | EntryKind::Position { queue, .. } if queue == name);
                    if !control_of_this_queue {
                        if let Some(extra) = oq.recs.iter().find(|r| mq.recs.binary_search_by_key(&r.pos, |x| x.pos).is_err()) {
                            return Some(("removed-record-reappeared".into(), format!("queue (name {} B): record at position {} ({} B) is back after open although it had been truncated or deleted and the damaged entry is not a truncate / delete / position entry of this queue", name.len(), extra.pos, extra.len)));
                        }
                    }
                }
            }
        }
    }
    None
}

pub struct DamageEval {
    pub failures: Vec<Failure>,
    pub open_ok: bool,
    pub open_err: Option<OpenFail>,
    pub peak_alloc: usize,
    pub image_bytes: usize,
}

fn fail(prop: &'static str, clause: &str, idx: usize, detail: String) -> Failure {
    Failure { prop, clause: clause.to_string(), op_index: idx, detail }
}

/// Opens a (damaged) image and applies the oracle of `prop`.
pub fn judge(prop: &str, d: Option<&Driver>, names: &[String], policy: Policy, knobs: &crate::model::Knobs, image: &Image, damaged_entry: Option<&EntryKind>, what: &str) -> DamageEval {
    let image_bytes: usize = image.values().map(|n| if let Node::File(d) = n { d.len() } else { 0 }).sum();
    let idx = d.map(|d| d.steps.len()).unwrap_or(0);
    crate::alloc::reset_peak();
    let base = crate::alloc::current();
    let res = recover(image, names, policy, knobs);
    let peak_alloc = crate::alloc::peak().saturating_sub(base);
    let mut ev = DamageEval { failures: Vec::new(), open_ok: false, open_err: None, peak_alloc, image_bytes };
    // C10 clauses apply whatever the property (but are reported under C10 only)
    match &res {
        Err((OpenFail::Panic(m), _)) => ev.failures.push(fail("C10", "panic", idx, format!("{what}: open or a read accessor panicked: {m}"))),
        Err((OpenFail::Hang, _)) => ev.failures.push(fail("C10", "hang", idx, format!("{what}: open did not terminate within the file-system step budget"))),
        _ => {}
    }
    if peak_alloc > 16 * image_bytes + (1 << 20) {
        ev.failures.push(fail("C10", "unbounded-allocation", idx, format!("{what}: open allocated {} bytes at peak for an image of {} bytes", peak_alloc, image_bytes)));
    }
    match res {
        Err((e, _)) => {
            if prop == "C09" {
                ev.failures.push(fail("C09", "open-failed", idx, format!("{what}: {}", open_fail_text(&e))));
            }
            ev.open_err = Some(e);
        }
        Ok((mut w, obs)) => {
            ev.open_ok = true;
            if let Some(d) = d {
                match prop {
                    "C08" => {
                        if let Some((clause, msg)) = c08_oracle(&appended_sets(d), &obs) {
                            ev.failures.push(fail("C08", &clause, idx, format!("{what}: {msg}")));
                        }
                    }
                    "C09" => {
                        let nothing = EntryKind::Undecodable;
                        if let Some((clause, msg)) = c09_oracle(d, damaged_entry.unwrap_or(&nothing), &obs) {
                            ev.failures.push(fail("C09", &clause, idx, format!("{what}: {msg}")));
                        } else if let Some(msg) = w.range_forms.take() {
                            // "recovered intact" includes being readable: a retained record that range(..) shows but
                            // range(p..) / range(..=p) skip has not been recovered for a consumer that resumes from p
                            ev.failures.push(fail("C09", "recovered-record-not-readable-through-bounded-range", idx, format!("{what}: {msg}")));
                        }
                    }
                    "C12" => {
                        if let Some(msg) = batch_atomicity(d, d.steps.len(), &obs) {
                            ev.failures.push(fail("C12", "batch-torn-by-damage", idx, format!("{what}: {msg}")));
                        }
                    }
                    _ => {}
                }
            }
            if prop == "C16" {
                if let Some(msg) = c16_on_recovered(&mut w, &obs) {
                    ev.failures.push(fail("C16", "recovered-log-accounting", idx, format!("{what}: {msg}")));
                }
            }
            // what recovery itself writes and removes (its GC pass) must not cost anything more: the same oracle
            // applies to the log as it comes back from one more, clean, restart
            if let (Some(d), true, true) = (d, ev.failures.is_empty(), matches!(prop, "C08" | "C09" | "C12")) {
                w.fs.borrow_mut().set_budget(400 + 24 * crate::crash::blocks_on_disk(image) + 200);
                let reopened = w.open();
                w.fs.borrow_mut().clear_budget();
                match reopened {
                    Err(e) => {
                        if prop == "C09" {
                            ev.failures.push(fail("C09", "open-failed-after-clean-restart", idx, format!("{what}: open succeeded, but after a clean restart {}", open_fail_text(&e))));
                        }
                    }
                    Ok(()) => {
                        if let Ok(obs2) = w.observe() {
                            let verdict: Option<(String, String)> = match prop {
                                "C08" => c08_oracle(&appended_sets(d), &obs2),
                                "C09" => {
                                    let nothing = EntryKind::Undecodable;
                                    let mut v = c09_oracle(d, damaged_entry.unwrap_or(&nothing), &obs2);
                                    if v.is_none() {
                                        // a queue that the first recovery still showed may not vanish by restarting
                                        if let Some(name) = obs.queues.keys().find(|n| !obs2.queues.contains_key(*n)) {
                                            v = Some(("queue-lost-by-clean-restart".to_string(), format!("queue (name {} B) was present after the first open and is gone after a clean restart", name.len())));
                                        }
                                    }
                                    v
                                }
                                _ => batch_atomicity(d, d.steps.len(), &obs2).map(|m| ("batch-torn-by-damage".to_string(), m)),
                            };
                            if let Some((clause, msg)) = verdict {
                                let prop_static: &'static str = match prop { "C08" => "C08", "C09" => "C09", _ => "C12" };
                                // an embedded frame that shows only now: recovery itself wrote (its GC pass) at the point where
                                // the damage made the log end early, over the beginning of what used to follow - the stale-tail
                                // finding (K2), if the documented reader reaches it on the image recovery left behind
                                let clause = if clause == "embedded-frame" {
                                    w.close();
                                    let now = w.image();
                                    if embedded_frame_route(&now) == "via-trusted-length" && writer_resumed_at_documented_end(image, &now) { "embedded-frame-via-stale-tail".to_string() } else { "embedded-frame-via-other-route-after-clean-restart".to_string() }
                                } else {
                                    format!("{clause}-after-clean-restart")
                                };
                                ev.failures.push(fail(prop_static, &clause, idx, format!("{what}, open, clean restart: {msg}")));
                            }
                        }
                    }
                }
            }
            if prop == "C10" {
                // the read accessors of the returned log, incl. range probes, must not panic
                let qnames: Vec<String> = obs.queues.keys().cloned().collect();
                let r = w.with_log(|log| {
                    for q in &qnames {
                        for (lo, hi) in [(0u64, u64::MAX), (u64::MAX, u64::MAX), (5, 3), (u64::MAX - 1, 0)] {
                            let _ = log.range(q, lo..hi).map(|it| it.count());
                            let _ = log.range(q, lo..=hi).map(|it| it.count());
                            let _ = log.range(q, (std::ops::Bound::Excluded(lo), std::ops::Bound::Unbounded)).map(|it| it.count());
                        }
                    }
                    let _ = log.resource_usage();
                    let _ = log.summary();
                });
                if let Err(m) = r {
                    ev.failures.push(fail("C10", "accessor-panic", idx, format!("{what}: a read accessor of the returned log panicked: {m}")));
                }
            }
        }
    }
    ev
}

/// Image left by the cleanly dropped history + its parse.
pub fn base_image(case: &Case) -> Option<(Driver, Image, Parsed)> {
    let mut d = crate::fault::eval_hist(case);
    if !d.conformance_ok() {
        return None;
    }
    d.world.close();
    let image = d.world.image();
    let parsed = parse(&image);
    Some((d, image, parsed))
}

/// Entry hit by a damage op (by byte range), if it is confined to one frame.
pub fn entry_hit<'a>(p: &'a Parsed, op: &DamageOp) -> Option<&'a EntryKind> {
    let (file, off) = match op {
        DamageOp::Flip { file, off, .. } | DamageOp::Garbage { file, off, .. } | DamageOp::Zero { file, off, .. } | DamageOp::Bytes { file, off, .. } => (*file, *off),
        _ => return None,
    };
    let fr = p.frames.iter().find(|f| f.file == file && off >= f.off && off < f.off + HDR + f.len)?;
    p.entries.get(fr.entry).map(|e| &e.kind)
}

pub fn evaluate_damage(prop: &str, case: &Case, fault: &Fault) -> Vec<Failure> {
    match fault {
        Fault::RawImage { seed, class } => {
            let image = raw_image(*seed, *class);
            let names = case.name_strings();
            let ev = judge(prop, None, &names, case.policy, &case.knobs, &image, None, &format!("raw image class {class} seed {seed}"));
            ev.failures.into_iter().filter(|f| f.prop == prop).collect()
        }
        Fault::DamageThen { ops, cont } => {
            let Some((d, image, _parsed)) = base_image(case) else { return Vec::new() };
            damage_then(prop, &d, case, &image, ops, cont)
        }
        Fault::Damage { ops } => {
            let Some((d, image, parsed)) = base_image(case) else { return Vec::new() };
            let damaged = apply_damage(&image, ops);
            let hit = if ops.len() == 1 { entry_hit(&parsed, &ops[0]).cloned() } else { None };
            let policy = d.world.policy;
            let ev = judge(prop, Some(&d), &d.names, policy, &case.knobs, &damaged, hit.as_ref(), &format!("damage {:?}", ops));
            let route = embedded_frame_route(&damaged);
            ev.failures.into_iter().filter(|f| f.prop == prop).map(|mut f| {
                if f.clause.starts_with("embedded-frame") && !f.clause.contains("-via-") {
                    f.clause = f.clause.replacen("embedded-frame", &format!("embedded-frame-{route}"), 1);
                }
                f
            }).collect()
        }
        _ => Vec::new(),
    }
}

/// C16 on a log returned by `open` (after restart, crash recovery or damage): the accounting must
/// describe the *recovered* state, whatever that state is.
pub fn c16_on_recovered(w: &mut crate::world::World, obs: &Obs) -> Option<String> {
    let ru = match w.try_resource_usage() {
        Ok(ru) => ru,
        Err(msg) => return Some(format!("resource_usage() of the recovered log panicked: {msg}")),
    };
    let n: usize = obs.queues.keys().map(|k| k.len()).sum();
    let b: usize = obs.queues.values().flat_map(|q| q.recs.iter()).map(|r| r.len as usize).sum();
    let r: usize = obs.queues.values().map(|q| q.recs.len()).sum();
    if ru.memory_used_bytes < n + b || ru.memory_used_bytes > n + b + 64 * r {
        return Some(format!("memory_used_bytes={} of the recovered log is outside [{}, {}] (names {} + payload {} + 64 x {} records)", ru.memory_used_bytes, n + b, n + b + 64 * r, n, b, r));
    }
    if ru.memory_used_bytes > ru.memory_allocated_bytes {
        return Some(format!("recovered log: used {} > allocated {}", ru.memory_used_bytes, ru.memory_allocated_bytes));
    }
    None
}

/// Structured damage inside one frame's payload: the same alteration repeated at a power-of-two distance
/// (identical bit flips, equal-length zero fills). A checksum that is linear over independently summed
/// lanes / words does not see such pairs.
pub fn correlated_damage(p: &Parsed, rng: &mut Rng) -> Vec<DamageOp> {
    let big: Vec<&crate::walparse::Frame> = p.frames.iter().filter(|f| f.len >= 16).collect();
    if big.is_empty() {
        return Vec::new();
    }
    let fr = *rng.pick(&big);
    let mut dists: Vec<usize> = vec![1, 2, 4, 8, 16, 64, 256, 512, 1024, 2048, 4096, 8192, 16384];
    dists.retain(|d| *d < fr.len);
    if dists.is_empty() {
        return Vec::new();
    }
    let dist = *rng.pick(&dists);
    let base = fr.off + HDR + rng.usize_below(fr.len - dist);
    let file = fr.file;
    match rng.below(4) {
        // the checksum field itself set to a "neutral" value (all zero / all ones), plus an altered payload byte
        3 => {
            let fill = *rng.pick(&[0u8, 0, 0xFF]);
            vec![
                DamageOp::Bytes { file, off: fr.off, data: vec![fill; 4] },
                DamageOp::Flip { file, off: fr.off + HDR + rng.usize_below(fr.len), bit: rng.below(8) as u8 },
            ]
        }
        0 => {
            let bit = rng.below(8) as u8;
            let mut v = vec![DamageOp::Flip { file, off: base, bit }, DamageOp::Flip { file, off: base + dist, bit }];
            if rng.chance(1, 3) && base + 2 * dist < fr.off + HDR + fr.len {
                v.push(DamageOp::Flip { file, off: base + 2 * dist, bit });
                v.push(DamageOp::Flip { file, off: base + 2 * dist + 1, bit });
                v.push(DamageOp::Flip { file, off: base + 1, bit });
            }
            v
        }
        1 => {
            // whole-lane zero fill (k x dist bytes)
            let k = 1 + rng.usize_below(3);
            let len = (k * dist).min(fr.off + HDR + fr.len - base);
            vec![DamageOp::Zero { file, off: base, len }]
        }
        _ => {
            let seed = rng.next_u64();
            let len = 1 + rng.usize_below(dist.min(16));
            // the same garbage XORed... approximated by the same bytes written at both places
            let mut g = Rng::new(seed);
            let data: Vec<u8> = (0..len).map(|_| g.next_u64() as u8).collect();
            vec![DamageOp::Bytes { file, off: base, data: data.clone() }, DamageOp::Bytes { file, off: base + dist, data }]
        }
    }
}

/// Damage, open, keep using the log (`cont`), and judge the records it returns at the end by C08's rule.
pub fn damage_then(prop: &str, d: &Driver, case: &Case, image: &Image, ops: &[DamageOp], cont: &[Op]) -> Vec<Failure> {
    let mut out = Vec::new();
    if prop != "C08" {
        return out;
    }
    let damaged = apply_damage(image, ops);
    let policy = d.world.policy;
    let Ok((w, obs)) = recover(&damaged, &d.names, policy, &case.knobs) else { return out };
    let mut model = d.model.clone();
    model.rebase(&obs);
    let mut cd = Driver::adopt(w, model, case.probe_seed ^ 0xC08C);
    cd.light = true;
    cd.lenient = true;
    let mut a = appended_sets(d);
    for op in cont {
        let o = cd.step(op.clone());
        if let (Op::Append { q, lens, uid, .. }, Outcome::Appended { last: Some(last), .. }) = (op, &o) {
            let first = last.wrapping_add(1).wrapping_sub(lens.len() as u64);
            let set = a.entry(cd.names[*q].clone()).or_default();
            for (k, &l) in lens.iter().enumerate() {
                set.insert(Rec::of(first.wrapping_add(k as u64), &crate::model::payload(*uid, k as u32, l as usize)));
            }
        }
        if cd.world.log.is_none() {
            return out; // open failed after the continuation: allowed (damage reported), nothing returned
        }
    }
    if let Ok(obs2) = cd.world.observe() {
        if let Some((clause, msg)) = c08_oracle(&a, &obs2) {
            // same question as in `embedded_frame_route`, on the image the continuation left behind: here the
            // documented reader gets inside an old payload because the damage shortened the log and the
            // continuation wrote over only the beginning of what used to follow
            let clause = if clause == "embedded-frame" {
                cd.world.close();
                let now = cd.world.image();
                if embedded_frame_route(&now) == "via-trusted-length" && writer_resumed_at_documented_end(&damaged, &now) { "embedded-frame-via-stale-tail".to_string() } else { "embedded-frame-via-other-route-after-continuation".to_string() }
            } else {
                format!("{clause}-after-continuation")
            };
            out.push(fail("C08", &clause, d.steps.len(), format!("damage {:?}, open, then {} and a restart: {msg}", ops, cont.iter().map(|o| o.short()).collect::<Vec<_>>().join(", "))));
        }
    }
    out
}

/// The scenario of `damage_then` aimed at a two-frame entry: its second frame header (at a block start) is
/// zeroed so that the log ends right after the first frame; the next entry written after recovery lands exactly
/// where the lost frame was and has exactly its size.
pub fn aimed_damage_then(p: &Parsed, d: &Driver, rng: &mut Rng) -> Option<(Vec<DamageOp>, Vec<Op>)> {
    // one time in three: a payload bit of the *last* frame of the log (checksum mismatch), then a shorter append to the
    // same queue and a restart - where the writer resumes relative to a bad last frame decides what the next open reads
    if rng.chance(1, 3) {
        if let Some(e) = p.entries.iter().rev().find(|e| matches!(e.kind, EntryKind::Append { .. })) {
            if e.last_frame + 1 == p.frames.len() {
                let f = &p.frames[e.last_frame];
                if let (EntryKind::Append { queue, .. }, true) = (&e.kind, f.len > 64) {
                    if let Some(q) = d.names.iter().position(|n| n == queue) {
                        let ops = vec![DamageOp::Flip { file: f.file, off: f.off + HDR + rng.usize_below(f.len), bit: rng.below(8) as u8 }];
                        let len = rng.below((f.len as u64 / 2).max(1)) as u32;
                        let cont = vec![Op::Append { q, pos: None, lens: vec![len], uid: 5_000_001 + 2 * rng.below(1000) as u32 }, Op::Restart { policy: None }];
                        return Some((ops, cont));
                    }
                }
            }
        }
    }
    let cands: Vec<&crate::walparse::Entry> = p.entries.iter().filter(|e| e.last_frame == e.first_frame + 1 && matches!(e.kind, EntryKind::Append { .. })).collect();
    if cands.is_empty() {
        return None;
    }
    let e = *rng.pick(&cands);
    let f2 = &p.frames[e.last_frame];
    let EntryKind::Append { queue, .. } = &e.kind else { return None };
    let q = d.names.iter().position(|n| n == queue)?;
    let ops = vec![DamageOp::Zero { file: f2.file, off: f2.off, len: HDR }];
    let need = f2.len as i64 - 23 - queue.len() as i64;
    let len = if need >= 0 && rng.chance(3, 4) { need as u32 } else { rng.below(2000) as u32 };
    let cont = vec![Op::Append { q, pos: None, lens: vec![len], uid: 5_000_001 + 2 * rng.below(1000) as u32 }, Op::Restart { policy: None }];
    Some((ops, cont))
}

/// How the reader came to parse inside a payload. Walks the damaged image the way the frame reader is documented
/// to (invalid type byte or a length that crosses the block end: drop the rest of the block; checksum mismatch:
/// step over the frame *using its length field*, which no checksum covers, and go on in the same block) and asks
/// whether that walk meets a checksum-valid frame at an offset that was not a frame boundary before the damage.
/// "via-trusted-length": it does (the recorded finding). "via-other-route": it does not, so the code under test
/// got inside the payload some other way.
pub fn embedded_frame_route(after: &Image) -> &'static str {
    for (_, data) in crate::walparse::wal_files(after) {
        for b in 0..data.len() / BLOCK {
            let block = &data[b * BLOCK..(b + 1) * BLOCK];
            let mut c = 0usize;
            while BLOCK - c >= HDR {
                let hdr = &block[c..c + HDR];
                if hdr.iter().all(|&x| x == 0) {
                    return "via-other-route"; // end of the log for the documented reader
                }
                let crc = u32::from_le_bytes(hdr[0..4].try_into().unwrap());
                let len = u16::from_le_bytes(hdr[4..6].try_into().unwrap()) as usize;
                if !(1..=4).contains(&hdr[6]) || c + HDR + len > BLOCK {
                    break;
                }
                let payload = &block[c + HDR..c + HDR + len];
                // the frames embedded in payloads by model::payload are the only ones that end like this
                if crate::walparse::frame_crc(hdr[6], payload) == crc && payload.ends_with(b"FORGEDzz") {
                    return "via-trusted-length";
                }
                c += HDR + len;
            }
        }
    }
    "via-other-route"
}

/// Where the documented frame reader (see `embedded_frame_route`) stops on this image, i.e. where the writer that
/// takes over from it resumes: the first all-zero frame header; or, when the walk runs off the end of the last
/// file, the in-block position it had reached in the last block (the header at which it gave the block up, or
/// the end of the last frame it stepped over).
pub fn documented_end_of_log(image: &Image) -> Option<(String, usize)> {
    let files = crate::walparse::wal_files(image);
    let mut last: Option<(String, usize)> = None;
    for (name, data) in &files {
        for b in 0..data.len() / BLOCK {
            let block = &data[b * BLOCK..(b + 1) * BLOCK];
            let mut c = 0usize;
            loop {
                last = Some((name.clone(), b * BLOCK + c));
                if BLOCK - c < HDR {
                    break;
                }
                let hdr = &block[c..c + HDR];
                if hdr.iter().all(|&x| x == 0) {
                    return last;
                }
                if !(1..=4).contains(&hdr[6]) {
                    break;
                }
                let len = u16::from_le_bytes(hdr[4..6].try_into().unwrap()) as usize;
                c += HDR;
                if c + len > BLOCK {
                    last = Some((name.clone(), b * BLOCK + c));
                    break;
                }
                c += len;
            }
        }
    }
    last
}

/// The stale-tail finding (K2) presupposes that the writer resumed where the documented reader stops on the damaged
/// image. True if nothing before that point was overwritten between `before` (damaged image) and `after`.
pub fn writer_resumed_at_documented_end(before: &Image, after: &Image) -> bool {
    let Some((end_file, end_off)) = documented_end_of_log(before) else { return false };
    for (name, data) in crate::walparse::wal_files(before) {
        // files that recovery's GC has removed since cannot have been written over
        if let Some(Node::File(now)) = after.get(&name) {
            let limit = if name == end_file { end_off.min(data.len()) } else { data.len() };
            let n = limit.min(now.len());
            if data[..n] != now[..n] {
                return false;
            }
        }
        if name == end_file {
            break;
        }
    }
    true
}
