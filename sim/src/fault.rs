//! Explicit fault descriptions (replayable) and the single evaluation entry point used both by
//! the search engines (to confirm) and by `simctl replay`.
use serde::{Deserialize, Serialize};

use crate::case::Case;
use crate::model::{Op, Policy};
use crate::run::{Driver, Failure};

#[derive(Clone, Debug, PartialEq, Eq, Serialize, Deserialize)]
pub enum DamageOp {
    /// XOR one bit
    Flip { file: usize, off: usize, bit: u8 },
    /// overwrite with PRNG bytes
    Garbage { file: usize, off: usize, len: usize, seed: u64 },
    Zero { file: usize, off: usize, len: usize },
    /// overwrite with explicit bytes (forged frames)
    Bytes { file: usize, off: usize, data: Vec<u8> },
    Truncate { file: usize, len: usize },
    Remove { file: usize },
    Duplicate { file: usize, as_number: u64 },
    SwapBlocks { file_a: usize, block_a: usize, file_b: usize, block_b: usize },
    SwapFiles { file_a: usize, file_b: usize },
    AppendGarbage { file: usize, len: usize, seed: u64 },
    AddEntry { name: String, kind: u8, len: usize, seed: u64 },
}

#[derive(Clone, Debug, PartialEq, Eq, Serialize, Deserialize)]
pub struct CrashPoint {
    /// index of the op whose effect is hit
    pub op: usize,
    /// k-th effect of that op (the crash happens before it is applied, after `byte` bytes if it is a write)
    pub eff_in_op: usize,
    pub byte: Option<usize>,
    /// power loss: seed of the loss mask (None: process crash, the OS view survives)
    pub powerloss: Option<u64>,
}

#[derive(Clone, Debug, PartialEq, Eq, Serialize, Deserialize)]
pub enum Fault {
    None,
    /// crash in the history, recover, run `cont`, restart; optionally crash again inside recovery
    Crash { at: CrashPoint, second: Option<(usize, Option<usize>)>, cont: Vec<Op> },
    /// damage the image left by the (cleanly dropped) history, then open
    Damage { ops: Vec<DamageOp> },
    /// as `Damage`, then keep using the log that opened (`cont`, last op a restart) and look again
    DamageThen { ops: Vec<DamageOp>, cont: Vec<Op> },
    /// fail the `call`-th fs call of the final `open`
    IoErr {
        call: usize,
        errno: i32,
        persistent: bool,
        consumed: usize,
        /// damage applied to the image before recovery (corrupted blocks exercise the reader's resync paths)
        #[serde(default)]
        damage: Vec<DamageOp>,
    },
    /// run the history under each policy and compare (C14)
    Policies { policies: Vec<Policy>, ticks_seed: u64 },
    /// compare with the projection on queue q (C18); optional crash point in the full history
    Project { q: usize, crash: Option<CrashPoint> },
    /// `extra` = (index in ops before which to insert, op) rejected/no-op calls (C13 differential)
    Insert { extra: Vec<(usize, Op)> },
    /// raw image instead of a history (C10 classes b, c)
    RawImage { seed: u64, class: u8 },
}

#[derive(Clone, Debug, Default)]
pub struct Eval {
    pub failures: Vec<Failure>,
    pub nontrivial: bool,
    pub signature: u64,
}

/// Fault-free evaluation: the lock-step driver with all its per-call oracles.
pub fn eval_hist(case: &Case) -> Driver {
    let mut d = Driver::new(case);
    d.run_all(&case.ops);
    d
}

pub fn evaluate(prop: &str, case: &Case, fault: &Fault) -> Vec<Failure> {
    match fault {
        Fault::None => {
            let squatted = prop == "C06" && !case.foreign.is_empty();
            let d = if prop == "C04" || prop == "C17" || prop == "C12" || prop == "C01" || squatted {
                let mut d = Driver::new(case);
                d.lenient = true;
                d.lenient_io = prop == "C17" || squatted;
                d.keep_obs = prop == "C12";
                d.run_all(&case.ops);
                d
            } else {
                eval_hist(case)
            };
            if prop == "C07" {
                return crate::c07::oracle(&d);
            }
            if prop == "C17" {
                let mut f: Vec<Failure> = d.failures.iter().filter(|f| f.prop == prop).cloned().collect();
                if f.is_empty() {
                    f.extend(crate::meta::c17_differential(case));
                }
                if f.is_empty() {
                    f.extend(crate::meta::c17_gaps(case, case.probe_seed).0);
                }
                return f;
            }
            d.failures.into_iter().filter(|f| f.prop == prop).collect()
        }
        Fault::Crash { .. } => crate::crash::evaluate_crash(prop, case, fault),
        Fault::Damage { .. } | Fault::DamageThen { .. } | Fault::RawImage { .. } => crate::damage::evaluate_damage(prop, case, fault),
        Fault::IoErr { .. } => crate::ioerr::evaluate_ioerr(prop, case, fault),
        Fault::Policies { .. } | Fault::Project { .. } | Fault::Insert { .. } => crate::meta::evaluate_meta(prop, case, fault),
    }
}
