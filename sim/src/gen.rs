//! Swarm configuration and adaptive op generation (ops are aimed using the model and the write cursor).
use crate::case::{Case, Foreign, ForeignKind};
use crate::model::{Knobs, NameSpec, Op, Policy};
use crate::prng::Rng;
use crate::run::Driver;
use crate::simfs::{BLOCK, FILE_BYTES};
use crate::walparse::{advance, append_entry_len};

/// Workload bias selected by the property under check.
#[derive(Clone, Copy, Debug, PartialEq, Eq)]
pub enum Profile {
    /// general mix (C01, C05, C13, C14, C15, C16, C18)
    General,
    /// flush-per-op policy only (C02, C04, C12 crash engines)
    AlwaysFlush,
    /// every policy, explicit persists (C03)
    AllPolicies,
    /// many roll-overs and GC (C06, C17)
    Rolling,
    /// batch heavy (C12)
    Batches,
    /// idle / emptied queues while others roll (C04)
    IdleQueues,
    /// small histories for damage / io error engines
    Small,
}

#[derive(Clone, Debug)]
pub struct GenCfg {
    pub profile: Profile,
    pub n_ops: usize,
    pub n_queues: usize,
    /// weights: create, delete, append, truncate, persist, restart, tick, invalid
    pub w: [u32; 8],
    /// payload size class weights: 0, 1-64, 65-2000, near-block, 1-3 blocks, > file
    pub wp: [u32; 6],
    /// batch size class weights: 1, 2-8, 0, 20-50
    pub wb: [u32; 4],
    /// position style weights: none, next, gap, retry-last, past
    pub ws: [u32; 5],
    pub align_permille: u32,
    pub max_files: usize,
    pub allow_policy_change: bool,
    pub idle_queues: usize,
}

pub fn pick_policy(rng: &mut Rng, profile: Profile) -> Policy {
    match profile {
        Profile::AlwaysFlush | Profile::IdleQueues => Policy::Always { fsync: rng.chance(1, 4) },
        _ => match rng.below(6) {
            0 => Policy::DoNothing,
            1 => Policy::OnDelay { interval_ns: *rng.pick(&[1u64, 1_000_000, 1_000_000_000, 3_600_000_000_000]), fsync: rng.chance(1, 2) },
            2 | 3 => Policy::Always { fsync: false },
            4 => Policy::Always { fsync: true },
            _ => Policy::DoNothing,
        },
    }
}

pub fn gen_names(rng: &mut Rng, n: usize) -> Vec<NameSpec> {
    (0..n)
        .map(|i| {
            let len = match rng.below(24) {
                0 => 200,
                1 => 32 * 1024 + rng.below(100) as u32,
                2 => 65535,
                3 => 1,
                // lengths around the one- and two-byte limits and around a block
                4 => *rng.pick(&[255u32, 256, 257, 127, 128, 65534, 32767, 32768, 32750]),
                _ => 2 + rng.below(7) as u32,
            };
            NameSpec { len, tag: i as u8, wide: rng.chance(1, 6) }
        })
        .collect()
}

pub fn gen_knobs(rng: &mut Rng, buggify: bool) -> Knobs {
    let cap = match rng.below(8) {
        0 => Some(1),
        1 => Some(7),
        2 => Some(100),
        3 => Some(4096),
        _ => None,
    };
    let (sw, sr, ei) = if buggify && rng.chance(1, 3) {
        (if rng.chance(1, 2) { 100 } else { 0 }, if rng.chance(1, 2) { 100 } else { 0 }, if rng.chance(1, 2) { 50 } else { 0 })
    } else {
        (0, 0, 0)
    };
    Knobs { bufwriter_capacity: cap, hash_seed: rng.next_u64(), fs_seed: rng.next_u64(), short_write: sw, short_read: sr, eintr: ei }
}

pub fn swarm(rng: &mut Rng, profile: Profile) -> GenCfg {
    let mut cfg = GenCfg {
        profile,
        n_ops: 6 + rng.usize_below(30),
        n_queues: 1 + rng.usize_below(4),
        w: [6, 3, 50, 14, 4, 6, 2, 8],
        wp: [5, 40, 25, 10, 15, 3],
        wb: [55, 30, 3, 12],
        ws: [60, 15, 10, 7, 8],
        align_permille: 250,
        max_files: 5,
        allow_policy_change: false,
        idle_queues: 0,
    };
    // swarm: randomly zero some weights / change emphasis
    if rng.chance(1, 4) {
        cfg.w[1] = 0;
    }
    if rng.chance(1, 4) {
        cfg.w[7] = 0;
    }
    if rng.chance(1, 3) {
        cfg.wp = [2, 10, 10, 15, 50, 10];
    }
    if rng.chance(1, 5) {
        cfg.wp = [10, 80, 10, 0, 0, 0];
        cfg.n_ops += 20;
    }
    if rng.chance(1, 5) {
        cfg.w[5] = 20;
    }
    match profile {
        Profile::General => {
            cfg.allow_policy_change = rng.chance(1, 4);
        }
        Profile::AlwaysFlush => {
            cfg.n_ops = 4 + rng.usize_below(16);
            cfg.w[4] = 1;
            cfg.w[6] = 0;
        }
        Profile::AllPolicies => {
            cfg.n_ops = 5 + rng.usize_below(20);
            cfg.w[4] = 10;
            cfg.w[6] = 4;
            cfg.allow_policy_change = rng.chance(1, 5);
        }
        Profile::Rolling => {
            cfg.wp = [2, 15, 15, 8, 50, 10];
            cfg.n_ops = 15 + rng.usize_below(40);
            cfg.w[3] = 22;
            cfg.max_files = 6;
        }
        Profile::Batches => {
            cfg.wb = [15, 45, 2, 38];
            // delete / re-create cycles: two incarnations' batches on one name in the same WAL
            cfg.w[0] = 9;
            cfg.w[1] = 7;
            // batches spanning three files exist too
            cfg.wp = [3, 30, 20, 10, 22, 15];
            cfg.n_ops = 4 + rng.usize_below(12);
            cfg.align_permille = 500;
            cfg.w[4] = 1;
            cfg.w[6] = 0;
        }
        Profile::IdleQueues => {
            cfg.n_queues = 2 + rng.usize_below(3);
            cfg.idle_queues = 1 + rng.usize_below(2);
            cfg.wp = [2, 10, 10, 8, 60, 10];
            cfg.n_ops = 12 + rng.usize_below(30);
            cfg.w[3] = 25;
            cfg.w[5] = 10;
        }
        Profile::Small => {
            cfg.n_ops = 3 + rng.usize_below(12);
            cfg.wp = [5, 40, 25, 10, 18, 2];
            cfg.w[5] = 3;
        }
    }
    cfg
}

/// Sizes that sit on format boundaries (full frame payload, block, file, 16-bit limits), +-1.
const MAGIC_SIZES: [u32; 14] = [32761, 32760, 32762, 32768, 32767, 32749, 65535, 65536, 65522, 98283, 131072, 131071, 130000, 255];

fn payload_len(rng: &mut Rng, cfg: &GenCfg, small_only: bool) -> u32 {
    if !small_only && rng.chance(1, 25) {
        return *rng.pick(&MAGIC_SIZES);
    }
    let class = if small_only { rng.weighted(&[cfg.wp[0].max(1), cfg.wp[1].max(1), cfg.wp[2] / 2]) } else { rng.weighted(&cfg.wp) };
    match class {
        0 => 0,
        1 => 1 + rng.below(64) as u32,
        2 => 65 + rng.below(1936) as u32,
        3 => (BLOCK as u64 - 60 + rng.below(80)) as u32,
        4 => (BLOCK as u64 + rng.below(2 * BLOCK as u64)) as u32,
        _ => (FILE_BYTES as u64 + rng.below(170_000)) as u32,
    }
}

/// Chooses a payload length such that the entry ends `r` bytes before a block end.
pub fn aligned_len(cursor_off: usize, name_len: usize, r: usize, extra_blocks: usize) -> Option<u32> {
    // search a small window around the analytic guess using the exact framing function
    let rem = BLOCK - cursor_off % BLOCK;
    let fixed = 11 + name_len + 12;
    let target_total = rem as i64 - r as i64 + (extra_blocks * BLOCK) as i64;
    let guess = target_total - 7 * (1 + extra_blocks as i64) - fixed as i64;
    for delta in -16i64..=16 {
        let len = guess + delta;
        if len < 0 {
            continue;
        }
        let entry = append_entry_len(name_len, &[len as u32]);
        let (end, _) = advance(cursor_off, entry);
        if (BLOCK - end % BLOCK) % BLOCK == r % BLOCK {
            return Some(len as u32);
        }
    }
    None
}

/// Payload length such that the entry's WAL footprint (headers, padding, payload) is exactly `target` bytes:
/// the cursor then ends at the same in-file offset, `target / file size` files further.
pub fn footprint_len(cursor_off: usize, name_len: usize, target: usize) -> Option<u32> {
    let fixed = 11 + name_len + 12;
    if target < fixed + 7 {
        return None;
    }
    let (mut lo, mut hi) = (0usize, target);
    while lo < hi {
        let mid = (lo + hi) / 2;
        let (_, bytes) = advance(cursor_off, fixed + mid);
        if bytes < target {
            lo = mid + 1;
        } else {
            hi = mid;
        }
    }
    let (_, bytes) = advance(cursor_off, fixed + lo);
    if bytes == target { Some(lo as u32) } else { None }
}

pub struct Gen {
    pub cfg: GenCfg,
    pub rng: Rng,
    pub next_uid: u32,
    /// the previous op was aimed to end exactly at the end of a WAL file: follow up with an fsync-type op
    pub at_file_end: bool,
    /// ops to issue next, in order (follow-ups of an aimed op)
    pub plan: std::collections::VecDeque<Op>,
    /// the long-pin scenario (below) is played at most once per run
    pub long_pin_done: bool,
}

impl Gen {
    pub fn new(cfg: GenCfg, rng: Rng) -> Gen {
        Gen { cfg, rng, next_uid: 1, at_file_end: false, plan: Default::default(), long_pin_done: false }
    }

    fn uid(&mut self) -> u32 {
        let u = self.next_uid;
        self.next_uid += 1;
        // the low bit selects append_record vs append_records for single-record batches
        (u << 1) | (self.rng.below(2) as u32)
    }

    /// Next op, aimed with the driver's model and cursor.
    pub fn next(&mut self, d: &Driver) -> Op {
        let cfg = self.cfg.clone();
        let rng = &mut self.rng;
        let nq = cfg.n_queues;
        let existing: Vec<usize> = (0..nq).filter(|&q| d.model.queues.contains_key(&d.names[q])).collect();
        let missing: Vec<usize> = (0..nq).filter(|&q| !d.model.queues.contains_key(&d.names[q])).collect();
        if existing.is_empty() {
            self.plan.clear();
            return Op::Create { q: *rng.pick(&missing) };
        }
        if let Some(op) = self.plan.pop_front() {
            return op;
        }
        // keep the simulated disk small: when too many files are live, release the oldest data
        if d.n_files() >= cfg.max_files {
            let nonempty: Vec<usize> = existing.iter().copied().filter(|&q| !d.model.queues[&d.names[q]].recs.is_empty()).collect();
            if !nonempty.is_empty() {
                let q = *rng.pick(&nonempty);
                let mq = &d.model.queues[&d.names[q]];
                let upto = if rng.chance(1, 2) { mq.recs.last().unwrap().pos } else { mq.recs[mq.recs.len() / 2].pos };
                return Op::Truncate { q, upto };
            }
        }
        let idle: Vec<usize> = (0..cfg.idle_queues.min(nq)).collect();
        // the write cursor sits exactly at the end of a file: half of the time persist, create or restart right there
        if self.at_file_end {
            self.at_file_end = false;
            if d.cursor.map(|c| c.1 == FILE_BYTES).unwrap_or(false) && rng.chance(1, 2) {
                return match rng.below(4) {
                    0 | 1 => Op::Persist { fsync: rng.chance(3, 4) },
                    2 if !missing.is_empty() => Op::Create { q: *rng.pick(&missing) },
                    _ => Op::Restart { policy: None },
                };
            }
        }
        let mut kind = rng.weighted(&cfg.w);
        if kind == 0 && missing.is_empty() {
            kind = 2;
        }
        match kind {
            0 => Op::Create { q: *rng.pick(&missing) },
            1 => Op::Delete { q: *rng.pick(&existing) },
            2 => {
                // append
                let mut q = *rng.pick(&existing);
                if idle.contains(&q) && !rng.chance(1, 6) {
                    // idle queues are rarely appended to
                    let others: Vec<usize> = existing.iter().copied().filter(|x| !idle.contains(x)).collect();
                    if !others.is_empty() {
                        q = *rng.pick(&others);
                    }
                }
                let mq = &d.model.queues[&d.names[q]];
                let style = rng.weighted(&cfg.ws);
                let pos = match style {
                    0 => None,
                    1 => Some(mq.next),
                    2 => Some(match rng.below(10) {
                        0 => mq.next.saturating_add(1 + rng.below(1 << 61)),
                        // just past a power of two (32-bit truncation, sign bits, ...), as long as it lies ahead
                        1 => {
                            let p = 1u64 << *rng.pick(&[8u32, 16, 31, 32, 33, 48, 61]);
                            let cand = p - 1 + rng.below(3);
                            if cand > mq.next { cand } else { mq.next.saturating_add(1 + rng.below(1000)) }
                        }
                        2 => {
                            let cand = (1u64 << 62) - 1 - rng.below(1000);
                            if cand > mq.next { cand } else { mq.next.saturating_add(1) }
                        }
                        // beyond the sign bit (the statements speak of positions below 2^62; the API takes any u64)
                        3 if rng.chance(1, 3) => {
                            let cand = (1u64 << 63) + rng.below(1 << 20);
                            if cand > mq.next { cand } else { mq.next.saturating_add(1) }
                        }
                        // the last positions there are: u64::MAX itself is never a record position, and a batch that
                        // does not fit below it is rejected as a whole, without a trace
                        4 if rng.chance(1, 2) => {
                            let cand = u64::MAX - rng.below(8);
                            if cand > mq.next { cand } else { mq.next.saturating_add(1) }
                        }
                        _ => mq.next.saturating_add(1 + rng.below(1000)),
                    }),
                    3 => mq.next.checked_sub(1),
                    _ => {
                        if mq.next >= 2 {
                            // far in the past (small numbers) as well as anywhere in the past
                            Some(if rng.chance(1, 2) { rng.below((mq.next - 1).min(1000)) } else { rng.below(mq.next - 1) })
                        } else {
                            None
                        }
                    }
                };
                let bclass = rng.weighted(&cfg.wb);
                let n = match bclass {
                    0 => 1,
                    1 => 2 + rng.usize_below(7),
                    2 => 0,
                    _ => 20 + rng.usize_below(31),
                };
                let mut lens: Vec<u32> = (0..n).map(|_| payload_len(rng, &cfg, n >= 20)).collect();
                if n >= 2 && rng.chance(1, 6) {
                    match rng.below(4) {
                        0 => *lens.last_mut().unwrap() = 0,
                        1 => lens[0] = 0,
                        2 => lens.iter_mut().for_each(|l| *l = 0),
                        _ => {
                            let k = rng.usize_below(n);
                            lens[k] = 0;
                        }
                    }
                }
                // alignment targeting on the first payload
                if n >= 1 && rng.below(1000) < cfg.align_permille as u64 {
                    if let Some((_, off)) = d.cursor {
                        let mut r = if rng.chance(3, 4) { rng.usize_below(17) } else { rng.usize_below(BLOCK) };
                        let mut extra = *rng.pick(&[0usize, 0, 0, 1, 1, 2, 3]);
                        if n == 1 && rng.chance(1, 12) {
                            // footprint of exactly one (or two) files: same in-file offset, next file
                            let target = FILE_BYTES * (1 + rng.usize_below(2));
                            if let Some(l) = footprint_len(off % FILE_BYTES, d.names[q].len(), target) {
                                lens[0] = l;
                                return Op::Append { q, pos, lens, uid: self.uid() };
                            }
                        }
                        if rng.chance(1, 5) {
                            // end exactly on the last byte of the file (the cursor then equals the file size)
                            r = 0;
                            extra = 3 - (off % FILE_BYTES) / BLOCK.max(1) % 4;
                            if off % FILE_BYTES == FILE_BYTES {
                                extra = 3;
                            }
                            self.at_file_end = n == 1;
                        }
                        if n == 1 {
                            if let Some(l) = aligned_len(off % FILE_BYTES, d.names[q].len(), r, extra) {
                                lens[0] = l;
                            }
                        }
                    }
                }
                // long pin: one small record of a slow queue keeps the oldest file alive while another queue fills and
                // releases twenty more; truncating the slow queue then makes them all reclaimable in one call
                if cfg.profile == Profile::Rolling && !self.long_pin_done && pos.is_none() && rng.chance(1, 60) {
                    let other: Vec<usize> = existing.iter().copied().filter(|x| *x != q).collect();
                    if let Some(&b) = other.first() {
                        self.long_pin_done = true;
                        let na = d.model.queues[&d.names[q]].next;
                        let nb = d.model.queues[&d.names[b]].next;
                        let rounds = 17 + rng.below(6);
                        if na < (1 << 62) && nb < (1 << 62) {
                            let sizes: Vec<u32> = (0..rounds).map(|_| 130_000 + rng.below(3000) as u32).collect();
                            let release = if rng.chance(2, 3) { Op::Truncate { q, upto: na } } else { Op::Delete { q } };
                            let first_len = 1 + rng.below(50) as u32;
                            for (i, len) in sizes.into_iter().enumerate() {
                                let uid = self.uid();
                                self.plan.push_back(Op::Append { q: b, pos: None, lens: vec![len], uid });
                                self.plan.push_back(Op::Truncate { q: b, upto: nb + i as u64 });
                            }
                            self.plan.push_back(release);
                            self.plan.push_back(Op::Restart { policy: None });
                            return Op::Append { q, pos: None, lens: vec![first_len], uid: self.uid() };
                        }
                    }
                }
                // a record of a mebibyte or more (memory accounting, buffers that grow and shrink)
                if cfg.profile == Profile::General && pos.is_none() && rng.chance(1, 400) {
                    let len = (1 << 20) + rng.below(200_000) as u32;
                    return Op::Append { q, pos: None, lens: vec![len], uid: self.uid() };
                }
                // file-periodic batch: equal records whose serialised size (12 + len) divides the payload capacity of a
                // whole WAL file (4 * 32761 = 2^2 * 181^2 bytes), long enough to cover at least one file entirely, then
                // a delete_queue of *another* queue and a restart. If a file in the middle of the entry ever goes
                // missing, what is left still parses as a batch - with a hole.
                if cfg.profile == Profile::Batches && pos.is_none() && rng.chance(1, 30) {
                    let l = *rng.pick(&[169u32, 350, 712]);
                    let per_file = (4 * (BLOCK - 7)) / (12 + l as usize);
                    let count = 2 * per_file + 2 + rng.usize_below(per_file);
                    let other: Vec<usize> = existing.iter().copied().filter(|x| *x != q).collect();
                    if let Some(&o) = other.first() {
                        self.plan.push_back(Op::Delete { q: o });
                    } else if let Some(&m) = missing.first() {
                        self.plan.push_back(Op::Create { q: m });
                        self.plan.push_back(Op::Delete { q: m });
                    }
                    self.plan.push_back(Op::Restart { policy: None });
                    return Op::Append { q, pos: None, lens: vec![l; count], uid: self.uid() };
                }
                // frame-like payload: complete checksummed frames embedded every 64 bytes
                if n >= 1 && lens[0] >= 200 && rng.chance(1, 12) {
                    let phase = rng.below(64) as u32;
                    let uid = self.uid() | crate::model::FRAME_LIKE | (phase << 24);
                    return Op::Append { q, pos, lens, uid };
                }
                // entry-like payload whose 64-byte grid is phased so that a grid point falls on the first block boundary
                // the entry crosses (the continuation frame's payload then starts with a well-formed entry header)
                if n == 1 && rng.chance(1, 10) {
                    if let Some((_, off)) = d.cursor {
                        let rem = BLOCK - off % BLOCK;
                        let head = 7 + 11 + d.names[q].len() + 12;
                        let rem = if rem < 7 { BLOCK + rem } else { rem };
                        if rem > head && (lens[0] as usize) > rem - head + 40 {
                            // any of the block boundaries the entry crosses (later ones are 32761 payload bytes apart)
                            let crossings = 1 + ((lens[0] as usize) - (rem - head)) / (BLOCK - 7);
                            let j = rng.usize_below(crossings.min(8));
                            let phase = ((rem - head + j * (BLOCK - 7)) % 64) as u32;
                            let uid = self.uid() | crate::model::ENTRY_LIKE | (phase << 24);
                            return Op::Append { q, pos, lens, uid };
                        }
                    }
                }
                // batches: make a frame boundary coincide with a record boundary (the first frame of the entry then
                // ends exactly after a whole record; what a reader does with a lost or mis-typed frame shows there)
                if n >= 2 && cfg.profile == Profile::Batches && rng.chance(2, 5) {
                    if let Some((_, off)) = d.cursor {
                        let in_block = off % BLOCK;
                        let room = BLOCK - in_block;
                        if room > 7 + 11 + d.names[q].len() + 12 {
                            let cap = room - 7 - 11 - d.names[q].len();
                            // records 0..=j fill the frame exactly
                            let j = rng.usize_below(n - 1);
                            let before: usize = lens[..j].iter().map(|&l| 12 + l as usize).sum();
                            if before + 12 <= cap && cap - before - 12 <= 3 * BLOCK {
                                lens[j] = (cap - before - 12) as u32;
                            }
                        }
                    }
                }
                Op::Append { q, pos, lens, uid: self.uid() }
            }
            3 => {
                // truncate
                let mut q = *rng.pick(&existing);
                if !idle.is_empty() && rng.chance(1, 3) {
                    let ex_idle: Vec<usize> = idle.iter().copied().filter(|x| existing.contains(x)).collect();
                    if !ex_idle.is_empty() {
                        q = *rng.pick(&ex_idle);
                    }
                }
                let mq = &d.model.queues[&d.names[q]];
                let upto = match (rng.below(20), mq.recs.first(), mq.recs.last()) {
                    (0..=11, Some(f), Some(l)) => rng.range(f.pos, l.pos),
                    (12..=14, _, Some(l)) => l.pos,
                    (15..=16, _, _) => mq.next.saturating_add(rng.below(50)),
                    (17, Some(f), _) => f.pos.saturating_sub(1 + rng.below(3)),
                    (18, _, _) => if rng.chance(1, 5) { u64::MAX - rng.below(3) } else { 0 },
                    _ => mq.next.saturating_sub(1),
                };
                Op::Truncate { q, upto }
            }
            4 => Op::Persist { fsync: rng.chance(1, 2) },
            5 => {
                let policy = if cfg.allow_policy_change && rng.chance(1, 3) { Some(pick_policy(rng, cfg.profile)) } else { None };
                Op::Restart { policy }
            }
            6 => Op::Tick { ns: *rng.pick(&[0u64, 1_000, 1_000_000, 1_000_000_000, 3_600_000_000_000, 7_200_000_000_001]) },
            _ => {
                // deliberately rejected / no-op calls
                let uid = self.uid();
                let rng = &mut self.rng;
                let shape = rng.below(9);
                let any_missing = if missing.is_empty() { nq } else { *rng.pick(&missing) };
                let q = *rng.pick(&existing);
                let mq = &d.model.queues[&d.names[q]];
                match shape {
                    0 => Op::Create { q },
                    1 if any_missing < nq => Op::Delete { q: any_missing },
                    2 if any_missing < nq => Op::Truncate { q: any_missing, upto: rng.below(100) },
                    3 if any_missing < nq => Op::Append { q: any_missing, pos: None, lens: vec![5], uid },
                    4 if mq.next >= 2 => Op::Append { q, pos: Some(if rng.chance(1, 2) { rng.below((mq.next - 1).min(1000)) } else { rng.below(mq.next - 1) }), lens: vec![7, 9], uid },
                    5 if mq.next >= 1 => Op::Append { q, pos: Some(mq.next - 1), lens: vec![33, 2, 1000], uid },
                    6 => Op::Append { q, pos: None, lens: vec![], uid },
                    7 => Op::Append { q, pos: Some(mq.next), lens: vec![], uid },
                    8 => Op::Append { q, pos: Some(mq.next.saturating_add(5)), lens: vec![], uid },
                    _ => Op::Create { q },
                }
            }
        }
    }
}

/// Near-miss and otherwise foreign directory entries (C17).
pub fn gen_foreign(rng: &mut Rng, n: usize) -> Vec<Foreign> {
    let mut out: Vec<Foreign> = Vec::new();
    let digits = |rng: &mut Rng, n: usize| -> String { (0..n).map(|_| (b'0' + rng.below(10) as u8) as char).collect() };
    for _ in 0..n {
        let name = match rng.below(14) {
            0 => format!("wal-{}", digits(rng, 19)),
            1 => format!("wal-{}", digits(rng, 21)),
            2 => {
                let mut s = digits(rng, 20).into_bytes();
                let i = rng.usize_below(20);
                s[i] = *rng.pick(b"xX -+.,_aZ");
                format!("wal-{}", String::from_utf8(s).unwrap())
            }
            3 => format!("wal-{}\u{0663}", digits(rng, 18)), // Arabic-Indic digit three: 2 bytes, total 24 bytes
            4 => format!("wal-+{}", digits(rng, 19)),
            5 => format!("WAL-{}", digits(rng, 20)),
            6 => format!("wal_{}", digits(rng, 20)),
            7 => format!(".wal-{}", digits(rng, 20)),
            8 => format!("wal-{}.tmp", digits(rng, 20)),
            9 => "wal-".to_string(),
            10 => format!("{}bad-{}", crate::simfs::NONUTF8_PREFIX, digits(rng, 4)),
            11 => format!("wal-{}", "９".repeat(6) + &digits(rng, 2)), // full-width digits, 3 bytes each -> 24 bytes
            12 => (*rng.pick(&["wal-99999999999999999999", "wal-18446744073709551616", "wal-20000000000000000000", "lock-123", "wal--0000000000000000007", "wal\u{e9}0000000000000000001", "wa\u{e9}-0000000000000000001", "wal-\u{e9}000000000000000001", "wal-000000000000000000\u{e9}", "wal-wal-0000000000000007", "wal-wal-0000000000000001", "wal-wal-wal-000000000002"])).to_string(),
            // valid WAL name (only dirs / symlinks use it): far above the live range, or right in it
            _ => format!("wal-{:020}", if rng.chance(1, 2) { 900_000 + rng.below(1000) } else { 1 + rng.below(8) }),
        };
        if out.iter().any(|f| f.name == name) {
            continue;
        }
        let valid_wal_name = crate::simfs::is_wal_name(&name);
        let kind = if valid_wal_name {
            if rng.chance(1, 2) { ForeignKind::Dir } else { ForeignKind::Symlink }
        } else {
            match rng.below(6) {
                0 => ForeignKind::Dir,
                1 => ForeignKind::Symlink,
                2 | 3 => ForeignKind::WalLike { seed: rng.next_u64() },
                _ => ForeignKind::File { len: *rng.pick(&[0u32, 1, 100, 32768, 131072]), seed: rng.next_u64() },
            }
        };
        out.push(Foreign { name, kind });
    }
    out
}

/// `n_foreign` value asking for a single squatter on one of the next WAL file names instead of random foreign entries.
pub const SQUATTER: usize = usize::MAX;

/// Generates a case adaptively: each op is chosen after the previous ones ran.
pub fn generate(seed: u64, profile: Profile, buggify: bool, n_foreign: usize) -> (Case, Driver) {
    generate_with(seed, profile, buggify, n_foreign, profile == Profile::IdleQueues)
}

/// `lenient`: the driver does not stop at a divergence from the reference model (the model is re-based
/// on what the log shows), for checks whose oracle does not use the model.
pub fn generate_with(seed: u64, profile: Profile, buggify: bool, n_foreign: usize, lenient: bool) -> (Case, Driver) {
    generate_opts(seed, profile, buggify, n_foreign, lenient, false)
}

pub fn generate_opts(seed: u64, profile: Profile, buggify: bool, n_foreign: usize, lenient: bool, lenient_io: bool) -> (Case, Driver) {
    let mut rng = Rng::new(seed);
    let cfg = swarm(&mut rng, profile);
    let policy = pick_policy(&mut rng, profile);
    let names = gen_names(&mut rng, cfg.n_queues);
    let knobs = gen_knobs(&mut rng, buggify);
    let foreign = if n_foreign == SQUATTER {
        // one directory or symlink on the name of one of the next WAL files: the roll-over onto it fails
        vec![Foreign { name: crate::simfs::wal_name(1 + rng.below(3)), kind: if rng.chance(1, 2) { ForeignKind::Dir } else { ForeignKind::Symlink } }]
    } else if n_foreign > 0 {
        gen_foreign(&mut rng, n_foreign)
    } else {
        Vec::new()
    };
    let mut case = Case { names, policy, knobs, foreign, probe_seed: rng.next_u64(), ops: Vec::new() };
    let mut driver = Driver::new(&case);
    driver.lenient = lenient;
    driver.lenient_io = lenient_io;
    driver.keep_obs = profile == Profile::Batches;
    let mut g = Gen::new(cfg.clone(), rng.fork(1));
    let first = Op::Restart { policy: None };
    case.ops.push(first.clone());
    driver.step(first);
    let mut restarted_at_end = false;
    while case.ops.len() < cfg.n_ops && !driver.stopped {
        let op = g.next(&driver);
        restarted_at_end = matches!(op, Op::Restart { .. });
        case.ops.push(op.clone());
        driver.step(op);
    }
    if !restarted_at_end && !driver.stopped {
        let op = Op::Restart { policy: None };
        case.ops.push(op.clone());
        driver.step(op);
    }
    (case, driver)
}
