use crate::case::Case;
use crate::fault::Fault;
use crate::run::Failure;

pub fn evaluate_ioerr(_prop: &str, _case: &Case, _fault: &Fault) -> Vec<Failure> {
    Vec::new()
}
