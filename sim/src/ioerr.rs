//! I/O-error engine (C11): fail any one of the directory-listing / open / seek / read calls
//! made by recovery, transiently or persistently, and require a prompt `Err(IoError)`.
use crate::case::Case;
use crate::fault::Fault;
use crate::model::Policy;
use crate::run::Failure;
use crate::simfs::{Class, Eff, Image, IoFault};
use crate::world::{OpenFail, World};

pub const ERRNOS: [i32; 4] = [crate::simfs::EIO, crate::simfs::EACCES, crate::simfs::ENOENT, crate::simfs::EMFILE];

#[derive(Clone, Debug)]
pub struct Call {
    pub index: usize,
    pub class: Class,
    pub target: String,
    pub len: usize,
}

/// Fault-free recovery of `image`: the list of fs calls it makes (None if it does not open cleanly).
pub fn baseline_calls(image: &Image, names: &[String], policy: Policy, knobs: &crate::model::Knobs) -> Option<Vec<Call>> {
    let mut w = World::new(image, names.to_vec(), policy, knobs.clone());
    w.fs.borrow_mut().set_budget(100_000);
    if w.open().is_err() {
        return None;
    }
    let fs = w.fs.borrow();
    Some(
        fs.trace
            .iter()
            .enumerate()
            .map(|(i, e)| Call {
                index: i,
                class: e.eff.class(),
                target: e.eff.target().unwrap_or("").to_string(),
                len: if let Eff::Read { len, .. } = &e.eff { *len } else { 0 },
            })
            .collect(),
    )
}

pub fn injectable(c: &Call) -> bool {
    matches!(c.class, Class::ReadDir | Class::Stat | Class::Open | Class::Seek | Class::Read)
}

#[derive(Clone, Debug, PartialEq, Eq)]
pub enum Verdict {
    ReportedIo,
    /// fault did not fire (call sequence diverged before it) — no verdict
    NotFired,
    Bad(&'static str, String),
}

pub fn inject(image: &Image, names: &[String], policy: Policy, knobs: &crate::model::Knobs, n_calls: usize, fault: &IoFault) -> Verdict {
    let mut w = World::new(image, names.to_vec(), policy, knobs.clone());
    {
        let mut fs = w.fs.borrow_mut();
        fs.faults.push(fault.clone());
        fs.set_budget(n_calls + 50);
    }
    let res = w.open();
    let fired = { let fs = w.fs.borrow(); fs.fired.ioerr + fs.fired.ioerr_sticky };
    if fired == 0 {
        return Verdict::NotFired;
    }
    match res {
        Err(OpenFail::Io(_)) => Verdict::ReportedIo,
        Ok(()) => Verdict::Bad("ok-after-io-error", "open returned Ok although a recovery I/O call had failed: the log was built from a partially read WAL".to_string()),
        Err(OpenFail::Corruption) => Verdict::Bad("corruption-instead-of-io-error", "open reported Corruption instead of the I/O error".to_string()),
        Err(OpenFail::Hang) => Verdict::Bad("retries-forever", format!("open did not return within {} file-system calls (fault-free recovery needs {}): it keeps retrying", n_calls + 50, n_calls)),
        Err(OpenFail::Panic(m)) => Verdict::Bad("panic", format!("open panicked: {m}")),
    }
}

/// Image left by the cleanly dropped history.
pub fn final_image(case: &Case) -> Option<(Image, Vec<String>, Policy)> {
    let mut d = crate::fault::eval_hist(case);
    if !d.conformance_ok() {
        return None;
    }
    d.world.close();
    let policy = d.world.policy;
    Some((d.world.image(), d.names.clone(), policy))
}

pub fn evaluate_ioerr(prop: &str, case: &Case, fault: &Fault) -> Vec<Failure> {
    let Fault::IoErr { call, errno, persistent, consumed, damage } = fault else { return Vec::new() };
    let Some((image, names, policy)) = final_image(case) else { return Vec::new() };
    let image = if damage.is_empty() { image } else { crate::damage::apply_damage(&image, damage) };
    let Some(calls) = baseline_calls(&image, &names, policy, &case.knobs) else { return Vec::new() };
    let f = IoFault { at: *call, errno: *errno, persistent: *persistent, consumed: *consumed };
    match inject(&image, &names, policy, &case.knobs, calls.len(), &f) {
        Verdict::Bad(clause, detail) if prop == "C11" => {
            let c = calls.get(*call);
            vec![Failure { prop: "C11", clause: clause.to_string(), op_index: case.ops.len(), detail: format!("errno {} ({}) injected at recovery call {} {:?}: {}", errno, if *persistent { "persistent" } else { "transient" }, call, c.map(|c| (c.class, c.target.clone())), detail) }]
        }
        _ => Vec::new(),
    }
}
