#![allow(dead_code)]
mod alloc;
mod c07;
mod case;
mod check;
mod crash;
mod damage;
mod fault;
mod gen;
mod ioerr;
mod meta;
mod minimise;
mod model;
mod prng;
mod props;
mod props2;
mod props3;
mod props4;
mod run;
mod simfs;
mod twin;
mod walparse;
mod watchdog;
mod world;

use std::collections::BTreeSet;
use std::process::ExitCode;

use check::{Found, RunReport, Tier};

#[global_allocator]
static GLOBAL: alloc::Counting = alloc::Counting;

/// Where evidence and replay files go: VERIF_OUT when set (runs against seeded changes and mutants, whose evidence
/// must not replace that of /repo itself), the root otherwise.
fn out_root() -> String {
    std::env::var("VERIF_OUT").ok().filter(|s| !s.is_empty()).unwrap_or_else(root)
}

fn root() -> String {
    std::env::var("VERIF_ROOT").unwrap_or_else(|_| "/verif".to_string())
}

fn runner(prop: &str) -> Option<fn(&str, u64, usize, Tier) -> RunReport> {
    match prop {
        "C01" | "C05" | "C06" | "C15" | "C16" | "C17" => Some(props::run_hist),
        _ => props2::runner(prop),
    }
}

fn replay_file(path: &str) -> Result<(Found, Vec<run::Failure>), String> {
    let text = std::fs::read_to_string(path).map_err(|e| format!("cannot read {path}: {e}"))?;
    let v: serde_json::Value = serde_json::from_str(&text).map_err(|e| format!("bad json in {path}: {e}"))?;
    let found: Found = serde_json::from_value(v["found"].clone()).map_err(|e| format!("bad replay file {path}: {e}"))?;
    let failures = fault::evaluate(&found.prop, &found.case, &found.fault);
    Ok((found, failures))
}

fn cmd_replay(path: &str) -> ExitCode {
    world::install_panic_hook_once();
    // a run that the wall-clock watchdog aborted is replayed by running it again under the same watchdog
    if let Some(h) = std::fs::read_to_string(path).ok().and_then(|t| serde_json::from_str::<serde_json::Value>(&t).ok()).and_then(|v| v.get("hung_run").cloned().map(|h| (v["property"].as_str().unwrap_or("").to_string(), h))) {
        let (prop, h) = h;
        let (Some(run_seed), Some(index)) = (h["run_seed"].as_str().and_then(|s| s.parse::<u64>().ok()), h["run_index"].as_u64()) else {
            eprintln!("harness error: bad hung_run entry in {path}");
            return ExitCode::from(2);
        };
        let tier = if h["tier"].as_str() == Some("thorough") { Tier::Thorough } else { Tier::Quick };
        let Some(run) = runner(&prop) else {
            eprintln!("harness error: no engine for {prop}");
            return ExitCode::from(2);
        };
        println!("replaying the hung run {index} (run seed {run_seed}) of {prop}: the watchdog reports it again if it hangs again");
        let _guard = watchdog::RunGuard::new(&prop, run_seed, index as usize, tier.name());
        let _ = run(&prop, run_seed, index as usize, tier);
        println!("NOT-REPRODUCED property={prop} clause=hang (the run returned)");
        return ExitCode::SUCCESS;
    }
    match replay_file(path) {
        Err(e) => {
            eprintln!("harness error: {e}");
            ExitCode::from(2)
        }
        Ok((found, failures)) => {
            println!("replaying {} ({} ops, fault {:?})", path, found.case.ops.len(), std::mem::discriminant(&found.fault));
            for (i, op) in found.case.ops.iter().enumerate() {
                println!("  op {i}: {}", op.short());
            }
            match failures.iter().find(|f| f.clause == found.clause) {
                Some(f) => {
                    println!("REPRODUCED property={} clause={} at op {}: {}", found.prop, f.clause, f.op_index, f.detail);
                    println!("VIOLATION property={} replay={}", found.prop, path);
                    ExitCode::from(1)
                }
                None => {
                    println!("NOT-REPRODUCED property={} clause={} (other failures: {:?})", found.prop, found.clause, failures.iter().map(|f| &f.clause).collect::<Vec<_>>());
                    ExitCode::SUCCESS
                }
            }
        }
    }
}

/// Debug aid: a C08 damage replay step by step (documented end of log, what recovery writes, what the restart shows).
fn cmd_dbg_damage(path: &str) -> ExitCode {
    world::install_panic_hook_once();
    let text = std::fs::read_to_string(path).expect("read");
    let v: serde_json::Value = serde_json::from_str(&text).expect("json");
    let found: Found = serde_json::from_value(v["found"].clone()).expect("found");
    let fault::Fault::Damage { ops } = &found.fault else { return ExitCode::from(2) };
    let Some((d, image, parsed)) = damage::base_image(&found.case) else { return ExitCode::from(2) };
    println!("files: {:?}", parsed.files);
    let damaged = damage::apply_damage(&image, ops);
    println!("documented end of the undamaged image: {:?}", damage::documented_end_of_log(&image));
    println!("documented end of the damaged image:   {:?}", damage::documented_end_of_log(&damaged));
    println!("route on damaged image: {}", damage::embedded_frame_route(&damaged));
    let policy = d.world.policy;
    match crash::recover(&damaged, &d.names, policy, &found.case.knobs) {
        Err((e, _)) => println!("open failed: {}", crash::open_fail_text(&e)),
        Ok((mut w, obs)) => {
            println!("first open: queues {:?}", obs.queues.iter().map(|(n, q)| (n.len(), q.recs.len(), q.last_position)).collect::<Vec<_>>());
            for e in w.fs.borrow().trace.iter() {
                match &e.eff {
                    simfs::Eff::Read { .. } | simfs::Eff::Seek { .. } => {}
                    other => println!("   recovery effect: {}", format!("{:?}", other).chars().take(160).collect::<String>()),
                }
            }
            w.close();
            let after = w.image();
            println!("files after recovery: {:?}", walparse::wal_files(&after).iter().map(|(n, d)| (n.clone(), d.len())).collect::<Vec<_>>());
            println!("documented end after recovery: {:?}; route: {}; writer resumed at documented end: {}", damage::documented_end_of_log(&after), damage::embedded_frame_route(&after), damage::writer_resumed_at_documented_end(&damaged, &after));
            let _ = w.open();
            if let Ok(o2) = w.observe() {
                println!("second open: queues {:?}", o2.queues.iter().map(|(n, q)| (n.clone().chars().take(4).collect::<String>(), q.recs.len(), q.last_position)).collect::<Vec<_>>());
            }
        }
    }
    ExitCode::SUCCESS
}

/// Debug aid: prints the ops and effect trace of a replay file's history.
fn cmd_trace(path: &str) -> ExitCode {
    world::install_panic_hook_once();
    let text = std::fs::read_to_string(path).expect("read");
    let v: serde_json::Value = serde_json::from_str(&text).expect("json");
    let found: Found = serde_json::from_value(v["found"].clone()).expect("found");
    let d = fault::eval_hist(&found.case);
    let fs = d.world.fs.borrow();
    for (i, s) in d.steps.iter().enumerate() {
        println!("op {i}: {} -> {:?}   [policy {:?}]", s.op.short(), s.outcome, s.policy);
        for (k, e) in fs.trace[s.eff_start..s.eff_end].iter().enumerate() {
            if !matches!(e.eff, simfs::Eff::Read { .. } | simfs::Eff::Stat { .. }) {
                println!("      {k:3} (#{}) {}", s.eff_start + k, e.eff.short());
            }
        }
    }
    println!("fault: {:?}", found.fault);
    if let fault::Fault::Crash { at, .. } = &found.fault {
        if let Some(idx) = crash::global_index(&d, at) {
            let image = match at.powerloss {
                Some(seed) => crash::powerloss_image(&fs.trace, &fs.bases[0].1, idx, at.byte, seed),
                None => crash::os_image_at(&d, idx, at.byte),
            };
            for (name, node) in &image {
                println!("  image: {name} {}", match node { simfs::Node::File(d) => format!("{} bytes", d.len()), n => format!("{n:?}") });
            }
            let p = walparse::parse(&image);
            for e in &p.entries {
                println!("  entry: {:?} frames {}..={} bytes {}", match &e.kind { walparse::EntryKind::Append { queue, position, recs } => format!("Append {queue} @{position} x{}", recs.len()), k => format!("{k:?}") }, e.first_frame, e.last_frame, e.bytes);
            }
            println!("  parser end {:?} problems {:?}", p.end, p.problems);
        }
    }
    for f in &d.failures {
        println!("phase-A failure: {:?}", f);
    }
    ExitCode::SUCCESS
}

fn cmd_check(prop: &str, tier: Tier) -> ExitCode {
    let Some(spec) = props::spec(prop) else {
        eprintln!("harness error: unknown property {prop}");
        return ExitCode::from(2);
    };
    let Some(run) = runner(prop) else {
        eprintln!("harness error: no engine for {prop}");
        return ExitCode::from(2);
    };
    let seed: u64 = std::env::var("VERIF_SEED").ok().and_then(|s| s.parse().ok()).unwrap_or(20260925);
    let threads: usize = std::env::var("VERIF_THREADS").ok().and_then(|s| s.parse().ok()).unwrap_or_else(|| std::thread::available_parallelism().map(|n| n.get()).unwrap_or(8));
    let scale: f64 = std::env::var("VERIF_SCALE").ok().and_then(|s| s.parse().ok()).unwrap_or(1.0);
    let n_runs = ((match tier { Tier::Quick => spec.quick_runs, Tier::Thorough => spec.thorough_runs }) as f64 * scale) as usize;
    let cap_s = match tier { Tier::Quick => 150.0, Tier::Thorough => 3000.0 };
    world::install_panic_hook_once();
    println!("check {prop} tier={} seed={seed} runs={n_runs} threads={threads}", tier.name());
    let prop_owned = prop.to_string();
    let m = check::search(prop, seed, n_runs.max(1), cap_s, threads, |s, i| {
        let _guard = watchdog::RunGuard::new(&prop_owned, s, i, tier.name());
        run(&prop_owned, s, i, tier)
    });
    println!("  {} runs, {} evaluations, {} distinct non-trivial, {:.1}s, failures found: {}", m.runs, m.evaluations, m.signatures.len(), m.wall_s, m.found.len());

    {
        let mut by_fp: std::collections::BTreeMap<String, usize> = Default::default();
        for (_, f) in &m.found {
            *by_fp.entry(f.fingerprint()).or_insert(0) += 1;
        }
        for (fp, n) in &by_fp {
            println!("  failure class {fp}: {n} occurrence(s)");
        }
    }
    let known = check::load_known_findings(&format!("{}/known_findings.json", root()));
    let mut known_hit: BTreeSet<String> = BTreeSet::new();
    let mut seen: BTreeSet<String> = BTreeSet::new();
    let mut violations = 0usize;
    let mut harness_error = !m.harness_errors.is_empty();
    for e in m.harness_errors.iter().take(3) {
        eprintln!("harness error: {e}");
    }
    let _ = std::fs::create_dir_all(format!("{}/replays", out_root()));
    for (run_index, found) in &m.found {
        let fp = found.fingerprint();
        if let Some(k) = known.iter().find(|k| k.property == found.prop && fp.starts_with(&k.fingerprint)) {
            if known_hit.insert(k.fingerprint.clone()) {
                println!("KNOWN-FINDING: property={} {} [{}]", found.prop, k.description, k.fingerprint);
            }
            continue;
        }
        if !seen.insert(fp.clone()) || violations >= 6 {
            continue;
        }
        // confirm through the replay path, minimise, write, replay in a fresh process
        let confirm = fault::evaluate(&found.prop, &found.case, &found.fault);
        if !confirm.iter().any(|f| f.clause == found.clause) {
            eprintln!("harness error: failure {} of run {} did not reproduce through the replay path ({})", fp, run_index, found.detail);
            harness_error = true;
            continue;
        }
        let min = minimise::minimise(found, 2000);
        let path = format!("{}/replays/{}-{}-{}-{}.json", out_root(), prop, seed, run_index, found.clause);
        let doc = serde_json::json!({
            "property": min.prop, "clause": min.clause, "detail": min.detail, "seed": seed, "run_index": run_index,
            "ops_before_minimisation": found.case.ops.len(), "ops": min.case.ops.iter().map(|o| o.short()).collect::<Vec<_>>(),
            "found": min,
        });
        std::fs::write(&path, serde_json::to_string_pretty(&doc).unwrap()).expect("cannot write replay file");
        let out = std::process::Command::new(std::env::current_exe().unwrap()).arg("replay").arg(&path).output();
        let reproduced = matches!(&out, Ok(o) if String::from_utf8_lossy(&o.stdout).contains("REPRODUCED property="));
        if !reproduced {
            eprintln!("harness error: replay file {path} did not reproduce in a fresh process");
            harness_error = true;
            continue;
        }
        violations += 1;
        println!("  failure: {} ({} ops after minimisation, {} before): {}", fp, min.case.ops.len(), found.case.ops.len(), min.detail);
        println!("VIOLATION property={} replay={}", prop, path);
    }
    let known_list: Vec<String> = known_hit.into_iter().collect();
    check::write_evidence(&format!("{}/evidence", out_root()), spec, tier, seed, &m, violations, &known_list, props2::extra_evidence(prop, &m));
    if harness_error {
        return ExitCode::from(2);
    }
    if m.signatures.len() < 2 {
        eprintln!("harness error: fewer than 2 distinct non-trivial cases explored");
        return ExitCode::from(2);
    }
    if violations > 0 {
        ExitCode::from(1)
    } else {
        println!("OK property={prop} held on everything explored");
        ExitCode::SUCCESS
    }
}

/// Determinism proof: per-run digests for a seed range, printed for diffing across processes.
fn cmd_digests(prop: &str, n: usize, threads: usize) -> ExitCode {
    world::install_panic_hook_once();
    let Some(run) = runner(prop) else { return ExitCode::from(2) };
    let seed: u64 = std::env::var("VERIF_SEED").ok().and_then(|s| s.parse().ok()).unwrap_or(20260925);
    let prop_owned = prop.to_string();
    let lines = std::sync::Mutex::new(Vec::new());
    check::search(prop, seed, n, 1e9, threads, |s, i| {
        let rep = run(&prop_owned, s, i, Tier::Quick);
        let mut d = prng::Digest::new();
        d.u64(rep.digest);
        d.u64(rep.evaluations);
        for sig in &rep.signatures {
            d.u64(*sig);
        }
        for f in &rep.found {
            d.str(&f.clause);
        }
        lines.lock().unwrap().push((i, d.0));
        rep
    });
    let mut lines = lines.into_inner().unwrap();
    lines.sort();
    for (i, d) in lines {
        println!("{i} {d:016x}");
    }
    ExitCode::SUCCESS
}

/// Subscriber that enables every level and discards everything: with it installed, the crate's logging
/// statements (and the DEBUG-only block in its GC pass) are executed instead of being skipped.
struct SinkSubscriber;

impl tracing::Subscriber for SinkSubscriber {
    fn enabled(&self, _: &tracing::Metadata<'_>) -> bool {
        true
    }
    fn new_span(&self, _: &tracing::span::Attributes<'_>) -> tracing::span::Id {
        tracing::span::Id::from_u64(1)
    }
    fn record(&self, _: &tracing::span::Id, _: &tracing::span::Record<'_>) {}
    fn record_follows_from(&self, _: &tracing::span::Id, _: &tracing::span::Id) {}
    fn event(&self, event: &tracing::Event<'_>) {
        // visit the fields so that their Debug / Display implementations run
        struct V(usize);
        impl tracing::field::Visit for V {
            fn record_debug(&mut self, _: &tracing::field::Field, value: &dyn std::fmt::Debug) {
                use std::fmt::Write;
                let mut s = String::new();
                let _ = write!(s, "{:?}", value);
                self.0 += s.len();
            }
        }
        let mut v = V(0);
        event.record(&mut v);
    }
    fn enter(&self, _: &tracing::span::Id) {}
    fn exit(&self, _: &tracing::span::Id) {}
}

fn main() -> ExitCode {
    if std::env::var("VERIF_NO_TRACING").is_err() {
        let _ = tracing::subscriber::set_global_default(SinkSubscriber);
    }
    let args: Vec<String> = std::env::args().collect();
    match args.get(1).map(|s| s.as_str()) {
        Some("check") => {
            let prop = args.get(2).cloned().unwrap_or_default();
            let mut tier = match std::env::var("VERIF_TIER").as_deref() {
                Ok("thorough") => Tier::Thorough,
                _ => Tier::Quick,
            };
            let mut i = 3;
            while i < args.len() {
                if args[i] == "--tier" {
                    tier = if args.get(i + 1).map(|s| s.as_str()) == Some("thorough") { Tier::Thorough } else { Tier::Quick };
                    i += 1;
                }
                i += 1;
            }
            cmd_check(&prop, tier)
        }
        Some("trace") => cmd_trace(args.get(2).map(|s| s.as_str()).unwrap_or("")),
        Some("dbg-damage") => cmd_dbg_damage(args.get(2).map(|s| s.as_str()).unwrap_or("")),
        Some("replay") => cmd_replay(args.get(2).map(|s| s.as_str()).unwrap_or("")),
        Some("digests") => {
            let prop = args.get(2).cloned().unwrap_or_default();
            let n = args.get(3).and_then(|s| s.parse().ok()).unwrap_or(200);
            let threads = args.get(4).and_then(|s| s.parse().ok()).unwrap_or(16);
            cmd_digests(&prop, n, threads)
        }
        _ => {
            eprintln!("usage: simctl check <Cxx> [--tier quick|thorough] | replay <file> | digests <Cxx> <n> <threads>");
            ExitCode::from(2)
        }
    }
}
