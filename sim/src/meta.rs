//! Metamorphic engines: C13 (rejected / no-op calls inserted), C14 (same history under every
//! persist policy), C18 (history vs its projection on one queue, live and after a crash).
use crate::case::Case;
use crate::crash::{global_index, os_image_at, recover};
use crate::fault::{CrashPoint, Fault};
use crate::model::{Obs, Op, Outcome, Policy, QObs};
use crate::run::{Driver, Failure};
use crate::simfs::Eff;

fn fail(prop: &'static str, clause: &str, idx: usize, detail: String) -> Failure {
    Failure { prop, clause: clause.to_string(), op_index: idx, detail }
}

pub fn run_keep(case: &Case) -> Driver {
    let mut d = Driver::new(case);
    d.keep_obs = true;
    d.run_all(&case.ops);
    d
}

/// As `run_keep`, but a divergence from the reference model does not stop the run (the oracle
/// that uses these runs compares executions with each other, not with the model).
pub fn run_keep_lenient(case: &Case) -> Driver {
    let mut d = Driver::new(case);
    d.keep_obs = true;
    d.lenient = true;
    d.run_all(&case.ops);
    d
}

fn strip_policy_changes(ops: &[Op]) -> Vec<Op> {
    ops.iter().map(|o| if let Op::Restart { .. } = o { Op::Restart { policy: None } } else { o.clone() }).collect()
}

// ------------------------------------------------------------------ C14

pub struct C14Result {
    pub failures: Vec<Failure>,
    pub traces_differ: bool,
    pub wal_bytes_differ: u64,
    pub images_differ: u64,
    pub rollover: bool,
}

pub fn c14(case: &Case, policies: &[Policy]) -> C14Result {
    let mut res = C14Result { failures: Vec::new(), traces_differ: false, wal_bytes_differ: 0, images_differ: 0, rollover: false };
    let ops = strip_policy_changes(&case.ops);
    let mut runs: Vec<(Policy, Driver)> = Vec::new();
    for p in policies {
        let mut c = case.clone();
        c.policy = *p;
        c.ops = ops.clone();
        // with a squatter on a WAL file name some calls fail with an I/O error under every policy alike: keep
        // going, what the policies are compared on is each other, not the reference model
        let mut d = if case.foreign.is_empty() {
            run_keep(&c)
        } else {
            let mut d = Driver::new(&c);
            d.keep_obs = true;
            d.lenient = true;
            d.lenient_io = true;
            d.run_all(&c.ops);
            d
        };
        d.world.close();
        runs.push((*p, d));
    }
    let Some((p0, d0)) = runs.first() else { return res };
    res.rollover = d0.probes.rollover > 0;
    let trace_sig = |d: &Driver| -> Vec<u8> { d.world.fs.borrow().trace.iter().map(|e| e.eff.class() as u8).collect() };
    let t0 = trace_sig(d0);
    let img0 = d0.world.image();
    for (p, d) in runs.iter().skip(1) {
        if trace_sig(d) != t0 {
            res.traces_differ = true;
        }
        if d.world.image() != img0 {
            res.images_differ += 1;
        }
        let n = d0.steps.len().max(d.steps.len());
        for i in 0..n {
            match (d0.steps.get(i), d.steps.get(i)) {
                (Some(a), Some(b)) => {
                    if a.outcome.logical() != b.outcome.logical() {
                        res.failures.push(fail("C14", "outcome-differs", i, format!("op {} {}: {:?} under {:?} but {:?} under {:?}", i, a.op.short(), a.outcome.logical(), p0, b.outcome.logical(), p)));
                        return res;
                    }
                    if a.outcome.wal() != b.outcome.wal() {
                        res.wal_bytes_differ += 1;
                    }
                    let (oa, ob) = (d0.obs_log.get(i).cloned().flatten(), d.obs_log.get(i).cloned().flatten());
                    if oa != ob {
                        let diff = match (&oa, &ob) {
                            (Some(x), Some(y)) => x.diff(y),
                            _ => "one execution has no observable state (call failed)".to_string(),
                        };
                        res.failures.push(fail("C14", "state-differs", i, format!("after op {} {}: state under {:?} vs under {:?}: {}", i, a.op.short(), p0, p, diff)));
                        return res;
                    }
                }
                _ => {
                    res.failures.push(fail("C14", "outcome-differs", i, format!("execution under {:?} stopped at op {} while the one under {:?} went on", if d0.steps.len() < d.steps.len() { p0 } else { p }, i, if d0.steps.len() < d.steps.len() { p } else { p0 })));
                    return res;
                }
            }
        }
    }
    res
}

// ------------------------------------------------------------------ C13 differential

pub struct C13Result {
    pub failures: Vec<Failure>,
    pub inserted: usize,
    pub shapes: std::collections::BTreeSet<u8>,
}

pub fn noop_shape(op: &Op, expected: &Outcome) -> Option<u8> {
    match (op, expected) {
        (Op::Create { .. }, Outcome::Err(_)) => Some(0),
        (Op::Delete { .. }, Outcome::Err(_)) => Some(1),
        (Op::Truncate { .. }, Outcome::Err(_)) => Some(2),
        (Op::Append { .. }, Outcome::Err(crate::model::ErrKind::MissingQueue)) => Some(3),
        (Op::Append { .. }, Outcome::Err(crate::model::ErrKind::Past)) => Some(4),
        (Op::Append { pos: Some(_), lens, .. }, Outcome::Appended { last: None, .. }) if !lens.is_empty() => Some(5),
        (Op::Append { lens, .. }, Outcome::Appended { last: None, .. }) if lens.is_empty() => Some(6),
        _ => None,
    }
}

/// H = case.ops; H+ = H with `extra` inserted (only those that really are rejected / no-op calls).
pub fn c13(case: &Case, extra: &[(usize, Op)]) -> C13Result {
    let mut res = C13Result { failures: Vec::new(), inserted: 0, shapes: Default::default() };
    let mut base = run_keep(case);
    if !base.conformance_ok() {
        return res;
    }
    // build H+ while tracking the index map
    let mut plus: Vec<Op> = Vec::new();
    let mut map: Vec<usize> = Vec::new(); // index in H+ of each op of H
    let mut sorted: Vec<(usize, Op)> = extra.to_vec();
    sorted.sort_by_key(|e| e.0);
    let mut it = sorted.into_iter().peekable();
    for (i, op) in case.ops.iter().enumerate() {
        while let Some((at, _)) = it.peek() {
            if *at <= i && i > 0 {
                let (_, x) = it.next().unwrap();
                // only keep the call if the specification says it is rejected / a no-op at this point
                let mut m = base.models[i].clone();
                let exp = m.apply(&x, &base.names);
                if let Some(shape) = noop_shape(&x, &exp) {
                    res.shapes.insert(shape);
                    res.inserted += 1;
                    plus.push(x);
                }
            } else {
                break;
            }
        }
        map.push(plus.len());
        plus.push(op.clone());
    }
    if res.inserted == 0 {
        return res;
    }
    let mut cp = case.clone();
    cp.ops = plus;
    let mut dplus = run_keep(&cp);
    // per-call oracle on the inserted calls (no mutating effect, wal == 0, state unchanged) ran inside the driver
    if let Some(f) = dplus.failures.iter().find(|f| f.prop == "C13") {
        res.failures.push(fail("C13", &f.clause, f.op_index, f.detail.clone()));
        return res;
    }
    if !dplus.conformance_ok() {
        let f = dplus.failures.iter().find(|f| f.prop == "C05" || f.prop == "C01").unwrap();
        res.failures.push(fail("C13", "differential-diverged", f.op_index, format!("history with rejected/no-op calls inserted diverged from the one without: {}", f.detail)));
        return res;
    }
    // differential: aligned ops have identical outcomes (incl. wal bytes), states and mutating effects
    for (i, &j) in map.iter().enumerate() {
        let (a, b) = (&base.steps[i], &dplus.steps[j]);
        if a.outcome != b.outcome {
            res.failures.push(fail("C13", "differential-outcome", j, format!("op {} returned {:?} in the plain history but {:?} after rejected/no-op calls were inserted before it", a.op.short(), a.outcome, b.outcome)));
            return res;
        }
        if base.obs_log[i] != dplus.obs_log[j] {
            res.failures.push(fail("C13", "differential-state", j, format!("state after {} differs once rejected/no-op calls were inserted before it", a.op.short())));
            return res;
        }
        let muts = |d: &Driver, s: &crate::run::Step| -> Vec<String> {
            d.world.fs.borrow().trace[s.eff_start..s.eff_end].iter().filter(|e| e.eff.is_mutating()).map(|e| match &e.eff {
                Eff::Write { name, off, data, .. } => format!("w {name} {off} {} {:x}", data.len(), crate::prng::hash_bytes(data)),
                other => other.short(),
            }).collect()
        };
        let (ma, mb) = (muts(&base, a), muts(&dplus, b));
        if ma != mb {
            let k = ma.iter().zip(&mb).position(|(x, y)| x != y).unwrap_or(ma.len().min(mb.len()));
            res.failures.push(fail("C13", "differential-effects", j, format!("op {} wrote differently once rejected/no-op calls were inserted before it: {:?} vs {:?}", a.op.short(), ma.get(k), mb.get(k))));
            return res;
        }
    }
    base.world.close();
    dplus.world.close();
    if base.world.image() != dplus.world.image() {
        res.failures.push(fail("C13", "differential-image", cp.ops.len(), "WAL file contents after the final clean drop differ between the history with and without the rejected/no-op calls".to_string()));
    }
    res
}

// ------------------------------------------------------------------ C18 projection

pub fn project(case: &Case, q: usize) -> (Case, Vec<usize>) {
    let mut ops = Vec::new();
    let mut map = Vec::new();
    for (i, op) in case.ops.iter().enumerate() {
        let keep = match op.queue() {
            Some(x) => x == q,
            None => true,
        };
        if keep {
            ops.push(op.clone());
            map.push(i);
        }
    }
    let mut c = case.clone();
    c.ops = ops;
    (c, map)
}

fn q_view(obs: &Option<Obs>, name: &str) -> Option<Option<QObs>> {
    obs.as_ref().map(|o| o.queues.get(name).cloned())
}

pub struct C18Result {
    pub failures: Vec<Failure>,
    pub observations: u64,
    pub other_queue_gc_between: bool,
}

pub fn c18(case: &Case, q: usize, crash: &Option<CrashPoint>) -> C18Result {
    let mut res = C18Result { failures: Vec::new(), observations: 0, other_queue_gc_between: false };
    let full = run_keep_lenient(case);
    let (pc, map) = project(case, q);
    let proj = run_keep_lenient(&pc);
    let name = full.names[q].clone();
    if proj.steps.len() != pc.ops.len() && proj.failures.is_empty() {
        return res;
    }
    // did another queue's call delete a file at some point?
    {
        let fs = full.world.fs.borrow();
        for s in &full.steps {
            if s.op.queue().map(|x| x != q).unwrap_or(false) && fs.trace[s.eff_start..s.eff_end].iter().any(|e| matches!(e.eff, Eff::Unlink { .. })) {
                res.other_queue_gc_between = true;
            }
        }
    }
    let limit = match crash {
        Some(c) => c.op.min(full.steps.len()),
        None => full.steps.len(),
    };
    for (j, &i) in map.iter().enumerate() {
        if i >= limit {
            break;
        }
        let (Some(sp), Some(sf)) = (proj.steps.get(j), full.steps.get(i)) else {
            res.failures.push(fail("C18", "projection-stopped", i, format!("the projection on the queue stopped at its op {} ({:?})", j, proj.failures.first().map(|f| f.detail.clone()))));
            return res;
        };
        if sp.outcome.logical() != sf.outcome.logical() {
            res.failures.push(fail("C18", "outcome-differs", i, format!("op {} {} returned {:?} in the full history and {:?} when the calls addressed to other queues are removed", i, sf.op.short(), sf.outcome.logical(), sp.outcome.logical())));
            return res;
        }
        let (vf, vp) = (q_view(&full.obs_log[i], &name), q_view(&proj.obs_log[j], &name));
        res.observations += 1;
        if vf != vp {
            res.failures.push(fail("C18", "content-differs", i, format!("after op {} {}: the queue's existence/records/next position differ between the full history and its projection on that queue", i, sf.op.short())));
            return res;
        }
    }
    if let Some(cp) = crash {
        // crash inside a call addressed to another queue; the queue must equal its projection at that point
        let b = cp.op;
        if b >= full.steps.len() || full.steps[b].op.queue() == Some(q) || full.steps[b].op.queue().is_none() {
            return res;
        }
        // sound only if everything about q had reached the OS before the crash: every call addressed to q
        // after the last persist point (explicit persist, create/delete of any queue, clean restart)
        // must have run under a flush-per-call policy
        let last_persist = (0..b).rev().find(|&i| crate::crash::obligation(&full.steps[i]).is_some() || matches!(full.steps[i].op, Op::Restart { .. }));
        let unflushed_q_op = (last_persist.map(|p| p + 1).unwrap_or(0)..b).any(|i| full.steps[i].op.queue() == Some(q) && !full.steps[i].policy.is_always() && !full.steps[i].outcome.is_err());
        if unflushed_q_op {
            return res;
        }
        let Some(idx) = global_index(&full, cp) else { return res };
        let image = os_image_at(&full, idx, cp.byte);
        let policy = full.steps[b].policy;
        match recover(&image, &full.names, policy, &case.knobs) {
            Err(_) => {} // C02's business
            Ok((_w, obs)) => {
                // last projected op before b
                let j = map.iter().rposition(|&i| i < b);
                let want: Option<QObs> = j.and_then(|j| proj.obs_log.get(j).cloned().flatten()).and_then(|o| o.queues.get(&name).cloned());
                let got = obs.queues.get(&name).cloned();
                res.observations += 1;
                if got != want {
                    res.failures.push(fail("C18", "content-differs-after-crash", b, format!("crash inside op {} {} (addressed to another queue): after recovery the queue's existence/records/next position differ from its projection ({} vs {} records)", b, full.steps[b].op.short(), got.as_ref().map(|g| g.recs.len() as i64).unwrap_or(-1), want.as_ref().map(|g| g.recs.len() as i64).unwrap_or(-1))));
                } else if got.is_some() {
                    // keep using the queue on the recovered log and on the projection (which never crashed): whatever
                    // the other queue's interrupted call left behind must not change what this queue returns later
                    let cont = [
                        Op::Append { q, pos: None, lens: vec![40], uid: 4_000_001 },
                        Op::Append { q, pos: None, lens: vec![45_000], uid: 4_000_003 },
                        Op::Restart { policy: None },
                        Op::Append { q, pos: None, lens: vec![7, 0, 300], uid: 4_000_005 },
                        Op::Restart { policy: None },
                    ];
                    let mut m = full.models[b].clone();
                    m.rebase(&obs);
                    let mut rec = Driver::adopt(_w, m, case.probe_seed ^ 0xC18C);
                    rec.light = true;
                    rec.lenient = true;
                    rec.keep_obs = true;
                    // the projection up to the corresponding point, on a fresh disk
                    let mut pc2 = pc.clone();
                    pc2.ops.truncate(j.map(|j| j + 1).unwrap_or(0).max(1));
                    let mut prj = Driver::new(&pc2);
                    prj.light = true;
                    prj.lenient = true;
                    prj.keep_obs = true;
                    prj.run_all(&pc2.ops);
                    for op in &cont {
                        let a = rec.step(op.clone());
                        let bb = prj.step(op.clone());
                        res.observations += 1;
                        let (va, vb) = (q_view(rec.obs_log.last().unwrap_or(&None), &name), q_view(prj.obs_log.last().unwrap_or(&None), &name));
                        if a.logical() != bb.logical() || va != vb {
                            res.failures.push(fail("C18", "content-differs-after-crash-and-continuation", b, format!("crash inside op {} {} (addressed to another queue), recovery, then {} on this queue: outcome / content differ from the projection that never crashed ({:?} vs {:?})", b, full.steps[b].op.short(), op.short(), a.logical(), bb.logical())));
                            break;
                        }
                    }
                }
            }
        }
    }
    res
}

pub fn evaluate_meta(prop: &str, case: &Case, fault: &Fault) -> Vec<Failure> {
    let failures = match fault {
        Fault::Policies { policies, .. } => c14(case, policies).failures,
        Fault::Insert { extra } => c13(case, extra).failures,
        Fault::Project { q, crash } => c18(case, *q, crash).failures,
        _ => Vec::new(),
    };
    failures.into_iter().filter(|f| f.prop == prop).collect()
}

// ------------------------------------------------------------------ C17: foreign entries must not matter; gaps allowed

/// The same history with and without the foreign directory entries must behave identically.
pub fn c17_differential(case: &Case) -> Vec<Failure> {
    let mut out = Vec::new();
    if case.foreign.is_empty() {
        return out;
    }
    let with = run_keep(case);
    let mut plain = case.clone();
    plain.foreign.clear();
    let without = run_keep(&plain);
    if !without.conformance_ok() {
        return out; // the history itself misbehaves: not a statement about foreign entries
    }
    for i in 0..without.steps.len() {
        let Some(sw) = with.steps.get(i) else {
            out.push(fail("C17", "foreign-entry-changed-behaviour", i, format!("with foreign directory entries present the history stopped at op {} ({:?})", i, with.failures.first().map(|f| f.detail.clone()))));
            return out;
        };
        let so = &without.steps[i];
        // a directory or symlink that occupies the name of the next WAL file makes the roll-over fail with an I/O
        // error (create_new refuses the name): the entry is left alone, which is all the statement asks for
        let wal_named_foreign = case.foreign.iter().any(|f| crate::simfs::is_wal_name(&f.name));
        if wal_named_foreign && matches!(sw.outcome, Outcome::Err(crate::model::ErrKind::Io)) && !so.outcome.is_err() {
            return out;
        }
        if sw.outcome != so.outcome {
            out.push(fail("C17", "foreign-entry-changed-behaviour", i, format!("op {} {} returned {:?} with foreign directory entries present and {:?} without them", i, so.op.short(), sw.outcome, so.outcome)));
            return out;
        }
        if with.obs_log.get(i) != without.obs_log.get(i) {
            out.push(fail("C17", "foreign-entry-changed-behaviour", i, format!("state after op {} {} differs when foreign directory entries are present", i, so.op.short())));
            return out;
        }
    }
    out
}

/// Renumbers the WAL files of the cleanly dropped image with an order-preserving map with gaps;
/// the log must open to the same state, and new files must continue from the highest number.
pub fn c17_gaps(case: &Case, seed: u64) -> (Vec<Failure>, bool) {
    use crate::simfs::{wal_name, wal_number, Image};
    let mut out = Vec::new();
    let mut d = run_keep(case);
    if !d.conformance_ok() {
        return (out, false);
    }
    d.world.close();
    let image = d.world.image();
    let mut rng = crate::prng::Rng::new(seed);
    let mut numbers: Vec<u64> = image.iter().filter(|(_, node)| matches!(node, crate::simfs::Node::File(_))).filter_map(|(n, _)| wal_number(n)).collect();
    numbers.sort();
    if numbers.is_empty() {
        return (out, false);
    }
    // one case in eight: the numbering ends at the largest number there is; two in eight: numbers of 20 significant
    // digits (>= 10^19) that still leave room for new files
    let mode = rng.below(8);
    let mut next = if mode == 1 || mode == 2 { 10_000_000_000_000_000_000u64 + rng.below(8_000_000_000_000_000_000) } else { 1 + rng.below(1 << 20) };
    let mut map = std::collections::BTreeMap::new();
    let at_top = mode == 0;
    if at_top {
        let mut n_hi = u64::MAX;
        for n in numbers.iter().rev() {
            map.insert(*n, n_hi);
            n_hi -= 1 + if rng.chance(1, 2) { rng.below(1 << 40) } else { rng.below(3) };
        }
    } else {
        for n in &numbers {
            map.insert(*n, next);
            next += 1 + if rng.chance(1, 2) { rng.below(1 << 40) } else { rng.below(3) };
        }
    }
    let mut renamed = Image::new();
    for (name, node) in &image {
        match wal_number(name) {
            Some(n) if matches!(node, crate::simfs::Node::File(_)) => {
                renamed.insert(wal_name(map[&n]), node.clone());
            }
            _ => {
                renamed.insert(name.clone(), node.clone());
            }
        }
    }
    let highest = *map.values().max().unwrap();
    let lowest = *map.values().min().unwrap();
    // foreign non-regular entries named like WAL files *below* the first real one: nothing may ever touch them
    let mut planted: Vec<String> = Vec::new();
    for _ in 0..rng.usize_below(3) {
        let n = rng.below(lowest);
        let name = wal_name(n);
        if !renamed.contains_key(&name) {
            renamed.insert(name.clone(), if rng.chance(1, 2) { crate::simfs::Node::Symlink } else { crate::simfs::Node::Dir });
            planted.push(name);
        }
    }
    let idx = case.ops.len();
    match recover(&renamed, &d.names, d.world.policy, &case.knobs) {
        // at the very top of the number range recovery's own GC may need a new file and there is none left
        Err((crate::world::OpenFail::Io(m), _)) if at_top && m.contains("overflow") => {}
        Err((e, _)) => out.push(fail("C17", "gaps-open-failed", idx, format!("WAL files renumbered {:?} -> {:?} (order preserved): {}", numbers, map.values().collect::<Vec<_>>(), crate::crash::open_fail_text(&e)))),
        Ok((w, obs)) => {
            let want = d.model.to_obs();
            if obs != want {
                out.push(fail("C17", "gaps-state-differs", idx, format!("WAL files renumbered {:?} -> {:?} (order preserved): {}", numbers, map.values().collect::<Vec<_>>(), obs.diff(&want))));
                return (out, true);
            }
            // continue: force a roll-over; the new file must be numbered highest + 1
            let mut cd = Driver::adopt(w, d.model.clone(), case.probe_seed ^ seed);
            cd.light = true;
            let existing: Vec<usize> = (0..cd.names.len()).filter(|&q| cd.model.queues.contains_key(&cd.names[q])).collect();
            if at_top {
                // no number is left for a new file: only a clean restart is asked of the log
                cd.step(Op::Restart { policy: None });
                if let Some(f) = cd.failures.iter().find(|f| f.prop == "C05" || f.prop == "C01" || f.prop == "C17") {
                    out.push(fail("C17", "gaps-continuation-diverged", idx, format!("WAL files renumbered up to u64::MAX, open, clean restart: {}", f.detail)));
                }
                return (out, true);
            }
            if let Some(&q) = existing.first() {
                cd.step(Op::Append { q, pos: None, lens: vec![100_000, 50_000], uid: 3_000_001 });
                // release everything so that the GC pass has files to remove
                let all: Vec<(usize, u64)> = (0..cd.names.len()).filter_map(|qq| cd.model.queues.get(&cd.names[qq]).and_then(|m| m.recs.last().map(|r| (qq, r.pos)))).collect();
                for (qq, last) in all {
                    cd.step(Op::Truncate { q: qq, upto: last });
                }
                cd.step(Op::Restart { policy: None });
                if let Some(f) = cd.failures.iter().find(|f| f.prop == "C17") {
                    out.push(fail("C17", "gaps-foreign-touched", idx, format!("after opening renumbered WAL files: {}", f.detail)));
                }
                let img_now = cd.world.image();
                if let Some(name) = planted.iter().find(|n| !img_now.contains_key(*n)) {
                    out.push(fail("C17", "gaps-foreign-touched", idx, format!("foreign entry {name} (numbered below the first WAL file) was removed")));
                }
                if let Some(f) = cd.failures.iter().find(|f| f.prop == "C05" || f.prop == "C01") {
                    out.push(fail("C17", "gaps-continuation-diverged", idx, format!("after opening renumbered WAL files: {}", f.detail)));
                }
                let listing: Vec<u64> = cd.world.fs.borrow().st.wal_names().iter().filter_map(|n| wal_number(n)).collect();
                // files created by the continuation: numbered highest+1, highest+2, ... (those still on disk are a consecutive run)
                let new_files: Vec<u64> = listing.iter().copied().filter(|n| !map.values().any(|m| m == n)).collect();
                let ok = new_files.iter().all(|n| *n > highest) && new_files.windows(2).all(|w| w[1] == w[0] + 1) && new_files.last().map(|l| *l <= highest + 16).unwrap_or(true);
                if !ok {
                    out.push(fail("C17", "gaps-new-file-number", idx, format!("highest existing WAL number was {highest}, files created afterwards are numbered {:?}", new_files)));
                }
            }
        }
    }
    (out, true)
}
