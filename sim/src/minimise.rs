//! Greedy delta debugging of (case, fault) under a same-property-same-clause criterion.
use crate::case::Case;
use crate::check::Found;
use crate::fault::{evaluate, Fault};
use crate::model::{Knobs, Op};

fn still_fails(prop: &str, clause: &str, case: &Case, fault: &Fault, budget: &mut usize) -> Option<String> {
    if *budget == 0 {
        return None;
    }
    *budget -= 1;
    evaluate(prop, case, fault).into_iter().find(|f| f.clause == clause).map(|f| f.detail)
}

/// Fault with op indices adjusted after removing ops[lo..hi]; None if the fault's anchor op is removed.
fn remap(fault: &Fault, lo: usize, hi: usize) -> Option<Fault> {
    let shift = |op: usize| -> Option<usize> {
        if op >= hi {
            Some(op - (hi - lo))
        } else if op >= lo {
            None
        } else {
            Some(op)
        }
    };
    match fault {
        Fault::Crash { at, second, cont } => {
            let mut at = at.clone();
            at.op = shift(at.op)?;
            Some(Fault::Crash { at, second: *second, cont: cont.clone() })
        }
        Fault::Project { q, crash } => {
            let crash = match crash {
                Some(c) => {
                    let mut c = c.clone();
                    c.op = shift(c.op)?;
                    Some(c)
                }
                None => None,
            };
            Some(Fault::Project { q: *q, crash })
        }
        Fault::Insert { extra } => {
            let mut out = Vec::new();
            for (i, op) in extra {
                let ni = if *i >= hi { *i - (hi - lo) } else if *i > lo { lo } else { *i };
                out.push((ni, op.clone()));
            }
            Some(Fault::Insert { extra: out })
        }
        f => Some(f.clone()),
    }
}

pub fn minimise(found: &Found, mut budget: usize) -> Found {
    let prop = found.prop.clone();
    let clause = found.clause.clone();
    let mut best = found.clone();
    // 1. drop op chunks (never op 0)
    let mut chunk = (best.case.ops.len() / 2).max(1);
    while chunk >= 1 && budget > 0 {
        let mut i = 1;
        let mut progressed = false;
        while i < best.case.ops.len() && budget > 0 {
            let hi = (i + chunk).min(best.case.ops.len());
            if let Some(fault) = remap(&best.fault, i, hi) {
                let mut case = best.case.clone();
                case.ops.drain(i..hi);
                if let Some(detail) = still_fails(&prop, &clause, &case, &fault, &mut budget) {
                    best.case = case;
                    best.fault = fault;
                    best.detail = detail;
                    progressed = true;
                    continue;
                }
            }
            i += chunk;
        }
        if chunk == 1 && !progressed {
            break;
        }
        if !progressed || chunk > 1 {
            chunk /= 2;
            if chunk == 0 {
                break;
            }
        }
    }
    // 2. simplify the fault
    let fault_candidates = |f: &Fault| -> Vec<Fault> {
        let mut v = Vec::new();
        match f {
            Fault::Crash { at, second, cont } => {
                if second.is_some() {
                    v.push(Fault::Crash { at: at.clone(), second: None, cont: cont.clone() });
                }
                if !cont.is_empty() {
                    v.push(Fault::Crash { at: at.clone(), second: *second, cont: Vec::new() });
                    if cont.len() > 1 {
                        v.push(Fault::Crash { at: at.clone(), second: *second, cont: cont[..cont.len() / 2].to_vec() });
                        v.push(Fault::Crash { at: at.clone(), second: *second, cont: cont[1..].to_vec() });
                    }
                }
                if at.byte.is_some() {
                    let mut a = at.clone();
                    a.byte = None;
                    v.push(Fault::Crash { at: a, second: *second, cont: cont.clone() });
                }
                if at.powerloss.is_some() {
                    let mut a = at.clone();
                    a.powerloss = None;
                    v.push(Fault::Crash { at: a, second: *second, cont: cont.clone() });
                }
            }
            Fault::Damage { ops } if ops.len() > 1 => {
                for i in 0..ops.len() {
                    let mut o = ops.clone();
                    o.remove(i);
                    v.push(Fault::Damage { ops: o });
                }
            }
            Fault::Insert { extra } if extra.len() > 1 => {
                for i in 0..extra.len() {
                    let mut o = extra.clone();
                    o.remove(i);
                    v.push(Fault::Insert { extra: o });
                }
            }
            Fault::Policies { policies, ticks_seed } if policies.len() > 2 => {
                for i in 0..policies.len() {
                    let mut o = policies.clone();
                    o.remove(i);
                    v.push(Fault::Policies { policies: o, ticks_seed: *ticks_seed });
                }
            }
            _ => {}
        }
        v
    };
    let mut changed = true;
    while changed && budget > 0 {
        changed = false;
        for cand in fault_candidates(&best.fault) {
            if let Some(detail) = still_fails(&prop, &clause, &best.case, &cand, &mut budget) {
                best.fault = cand;
                best.detail = detail;
                changed = true;
                break;
            }
        }
    }
    // 3. simplify knobs, names, foreign entries
    let mut case = best.case.clone();
    case.knobs = Knobs { hash_seed: case.knobs.hash_seed, fs_seed: case.knobs.fs_seed, ..Knobs::default() };
    if case != best.case {
        if let Some(detail) = still_fails(&prop, &clause, &case, &best.fault, &mut budget) {
            best.case = case;
            best.detail = detail;
        }
    }
    for qi in 0..best.case.names.len() {
        if best.case.names[qi].len > 4 {
            let mut case = best.case.clone();
            case.names[qi].len = 3;
            case.names[qi].wide = false;
            if let Some(detail) = still_fails(&prop, &clause, &case, &best.fault, &mut budget) {
                best.case = case;
                best.detail = detail;
            }
        }
    }
    let mut fi = 0;
    while fi < best.case.foreign.len() && budget > 0 {
        let mut case = best.case.clone();
        case.foreign.remove(fi);
        if let Some(detail) = still_fails(&prop, &clause, &case, &best.fault, &mut budget) {
            best.case = case;
            best.detail = detail;
        } else {
            fi += 1;
        }
    }
    // 4. shrink op arguments
    for i in 1..best.case.ops.len() {
        if budget == 0 {
            break;
        }
        let op = best.case.ops[i].clone();
        let mut cands: Vec<Op> = Vec::new();
        match &op {
            Op::Append { q, pos, lens, uid } => {
                if lens.len() > 1 {
                    cands.push(Op::Append { q: *q, pos: *pos, lens: lens[..1].to_vec(), uid: *uid });
                    cands.push(Op::Append { q: *q, pos: *pos, lens: lens[..lens.len() / 2].to_vec(), uid: *uid });
                }
                if lens.iter().any(|&l| l > 8) {
                    cands.push(Op::Append { q: *q, pos: *pos, lens: lens.iter().map(|&l| l.min(8)).collect(), uid: *uid });
                    cands.push(Op::Append { q: *q, pos: *pos, lens: lens.iter().map(|&l| l / 2).collect(), uid: *uid });
                }
                if pos.is_some() {
                    cands.push(Op::Append { q: *q, pos: None, lens: lens.clone(), uid: *uid });
                }
            }
            Op::Restart { policy: Some(_) } => cands.push(Op::Restart { policy: None }),
            _ => {}
        }
        for cand in cands {
            let mut case = best.case.clone();
            case.ops[i] = cand;
            if let Some(detail) = still_fails(&prop, &clause, &case, &best.fault, &mut budget) {
                best.case = case;
                best.detail = detail;
                break;
            }
        }
    }
    best
}
