//! Case description (explicit ops, replayable), reference model, observations.
use std::collections::BTreeMap;

use serde::{Deserialize, Serialize};

use crate::prng::{hash_bytes, splitmix64};

#[derive(Clone, Copy, Debug, PartialEq, Eq, Serialize, Deserialize)]
pub enum Policy {
    DoNothing,
    /// interval in nanoseconds of simulated time
    OnDelay { interval_ns: u64, fsync: bool },
    Always { fsync: bool },
}

impl Policy {
    pub fn is_always(&self) -> bool {
        matches!(self, Policy::Always { .. })
    }
    pub fn to_real(&self) -> mrecordlog::PersistPolicy {
        use mrecordlog::{PersistAction, PersistPolicy};
        let act = |fsync: bool| if fsync { PersistAction::FlushAndFsync } else { PersistAction::Flush };
        match *self {
            Policy::DoNothing => PersistPolicy::DoNothing,
            Policy::OnDelay { interval_ns, fsync } => PersistPolicy::OnDelay {
                interval: std::time::Duration::from_nanos(interval_ns),
                action: act(fsync),
            },
            Policy::Always { fsync } => PersistPolicy::Always(act(fsync)),
        }
    }
    pub fn tag(&self) -> u64 {
        match self {
            Policy::DoNothing => 0,
            Policy::OnDelay { fsync: false, .. } => 1,
            Policy::OnDelay { fsync: true, .. } => 2,
            Policy::Always { fsync: false } => 3,
            Policy::Always { fsync: true } => 4,
        }
    }
}

#[derive(Clone, Debug, PartialEq, Eq, Serialize, Deserialize)]
pub struct NameSpec {
    pub len: u32,
    pub tag: u8,
    /// use multi-byte UTF-8 filler
    pub wide: bool,
}

impl NameSpec {
    pub fn name(&self) -> String {
        let mut s = format!("q{}", self.tag);
        let len = self.len as usize;
        if s.len() > len {
            // very short names: one char per tag
            let c = (b'a' + self.tag % 26) as char;
            return std::iter::repeat(c).take(len.max(1)).collect();
        }
        if self.wide {
            while s.len() + 2 <= len {
                s.push('é');
            }
        }
        while s.len() < len {
            s.push('x');
        }
        s
    }
}

#[derive(Clone, Debug, PartialEq, Eq, Serialize, Deserialize)]
pub enum Op {
    /// Drop the log (clean: BufWriter flushes) and open the directory again. `policy: None` keeps the current one.
    Restart { policy: Option<Policy> },
    Create { q: usize },
    Delete { q: usize },
    Append { q: usize, pos: Option<u64>, lens: Vec<u32>, uid: u32 },
    Truncate { q: usize, upto: u64 },
    Persist { fsync: bool },
    /// Advance the simulated clock.
    Tick { ns: u64 },
}

impl Op {
    pub fn queue(&self) -> Option<usize> {
        match self {
            Op::Create { q } | Op::Delete { q } | Op::Append { q, .. } | Op::Truncate { q, .. } => Some(*q),
            _ => None,
        }
    }
    pub fn kind(&self) -> u8 {
        match self {
            Op::Restart { .. } => 0,
            Op::Create { .. } => 1,
            Op::Delete { .. } => 2,
            Op::Append { .. } => 3,
            Op::Truncate { .. } => 4,
            Op::Persist { .. } => 5,
            Op::Tick { .. } => 6,
        }
    }
    pub fn short(&self) -> String {
        match self {
            Op::Restart { policy } => format!("restart({policy:?})"),
            Op::Create { q } => format!("create(q{q})"),
            Op::Delete { q } => format!("delete(q{q})"),
            Op::Append { q, pos, lens, uid } => {
                if lens.len() <= 4 {
                    format!("append(q{q},{pos:?},{lens:?})#{uid}")
                } else {
                    format!("append(q{q},{pos:?},[{}x, total {}])#{uid}", lens.len(), lens.iter().map(|&l| l as u64).sum::<u64>())
                }
            }
            Op::Truncate { q, upto } => format!("truncate(q{q},..={upto})"),
            Op::Persist { fsync } => format!("persist(fsync={fsync})"),
            Op::Tick { ns } => format!("tick({ns}ns)"),
        }
    }
}

#[derive(Clone, Debug, PartialEq, Eq, Serialize, Deserialize)]
pub struct Knobs {
    pub bufwriter_capacity: Option<usize>,
    pub hash_seed: u64,
    pub fs_seed: u64,
    pub short_write: u32,
    pub short_read: u32,
    pub eintr: u32,
}

impl Default for Knobs {
    fn default() -> Self {
        Knobs { bufwriter_capacity: None, hash_seed: 0, fs_seed: 0, short_write: 0, short_read: 0, eintr: 0 }
    }
}

/// Payload bytes are a pure function of (uid, record index, length).
pub fn payload(uid: u32, idx: u32, len: usize) -> Vec<u8> {
    let mut out = Vec::with_capacity(len + 8);
    let mut header = [0u8; 16];
    header[0..4].copy_from_slice(&uid.to_le_bytes());
    header[4..8].copy_from_slice(&idx.to_le_bytes());
    header[8..12].copy_from_slice(&(len as u32).to_le_bytes());
    header[12..16].copy_from_slice(&[0xA5, 0x5A, 0xC3, 0x3C]);
    out.extend_from_slice(&header[..len.min(16)]);
    let mut x = splitmix64(((uid as u64) << 32) | idx as u64) | 1;
    while out.len() < len {
        x ^= x << 13;
        x ^= x >> 7;
        x ^= x << 17;
        out.extend_from_slice(&x.to_le_bytes());
    }
    out.truncate(len);
    if uid & ENTRY_LIKE != 0 {
        // "entry-like" payload: every 64 bytes (from `phase`) a well-formed AppendRecords entry header for a queue
        // that does not exist ("zz"), whose single item claims all bytes up to the end of the payload. Any reader
        // that ever takes payload bytes starting at such an offset for an entry delivers a record nobody appended.
        let phase = ((uid >> 24) & 63) as usize;
        let mut o = phase;
        while o + 27 <= len {
            out[o] = 4;
            out[o + 1..o + 9].copy_from_slice(&(7_000_000u64 + o as u64).to_le_bytes());
            out[o + 9..o + 11].copy_from_slice(&2u16.to_le_bytes());
            out[o + 11..o + 13].copy_from_slice(b"zz");
            out[o + 13..o + 21].copy_from_slice(&(7_000_000u64 + o as u64).to_le_bytes());
            out[o + 21..o + 25].copy_from_slice(&((len - o - 25) as u32).to_le_bytes());
            o += 64;
        }
    }
    if uid & FRAME_LIKE != 0 {
        // "frame-like" payload: every 64 bytes a complete, checksummed Full frame holding an AppendRecords entry
        // for the non-existing queue "zz". A reader that ever resumes parsing inside a payload delivers it.
        let mut o = ((uid >> 24) & 63) as usize;
        while o + 48 <= len {
            let mut entry = Vec::with_capacity(41);
            entry.push(4u8);
            entry.extend_from_slice(&(8_000_000u64 + o as u64).to_le_bytes());
            entry.extend_from_slice(&2u16.to_le_bytes());
            entry.extend_from_slice(b"zz");
            entry.extend_from_slice(&(8_000_000u64 + o as u64).to_le_bytes());
            entry.extend_from_slice(&8u32.to_le_bytes());
            entry.extend_from_slice(b"FORGEDzz");
            let mut h = crc32fast::Hasher::new();
            h.update(&[1u8]);
            h.update(&entry);
            out[o..o + 4].copy_from_slice(&h.finalize().to_le_bytes());
            out[o + 4..o + 6].copy_from_slice(&(entry.len() as u16).to_le_bytes());
            out[o + 6] = 1;
            out[o + 7..o + 7 + entry.len()].copy_from_slice(&entry);
            o += 64;
        }
    }
    out
}

/// uid flag: entry-like payload (see `payload`); bits 24..29 carry the phase of the 64-byte grid.
pub const ENTRY_LIKE: u32 = 1 << 31;
/// uid flag: frame-like payload (see `payload`); same phase bits.
pub const FRAME_LIKE: u32 = 1 << 30;

#[derive(Clone, Copy, Debug, PartialEq, Eq, PartialOrd, Ord, Hash, Serialize, Deserialize)]
pub struct Rec {
    pub pos: u64,
    pub hash: u64,
    pub len: u32,
}

impl Rec {
    pub fn of(pos: u64, bytes: &[u8]) -> Rec {
        Rec { pos, hash: hash_bytes(bytes), len: bytes.len() as u32 }
    }
}

#[derive(Clone, Debug, PartialEq, Eq, Default)]
pub struct MQueue {
    pub incarnation: u32,
    pub next: u64,
    pub recs: Vec<Rec>,
}

#[derive(Clone, Copy, Debug, PartialEq, Eq, Serialize, Deserialize)]
pub enum ErrKind {
    AlreadyExists,
    MissingQueue,
    Past,
    Io,
    Corruption,
    Panic,
    Hang,
}

#[derive(Clone, Debug, PartialEq, Eq)]
pub enum Outcome {
    Opened,
    Created { wal: u64 },
    Deleted { wal: u64 },
    Appended { last: Option<u64>, wal: u64 },
    Truncated { evicted: usize, wal: u64 },
    Persisted,
    Ticked,
    Err(ErrKind),
}

impl Outcome {
    pub fn wal(&self) -> u64 {
        match self {
            Outcome::Created { wal } | Outcome::Deleted { wal } | Outcome::Appended { wal, .. } | Outcome::Truncated { wal, .. } => *wal,
            _ => 0,
        }
    }
    /// Outcome with the wal byte count blanked (the model does not predict it).
    pub fn logical(&self) -> Outcome {
        match self {
            Outcome::Created { .. } => Outcome::Created { wal: 0 },
            Outcome::Deleted { .. } => Outcome::Deleted { wal: 0 },
            Outcome::Appended { last, .. } => Outcome::Appended { last: *last, wal: 0 },
            Outcome::Truncated { evicted, .. } => Outcome::Truncated { evicted: *evicted, wal: 0 },
            o => o.clone(),
        }
    }
    pub fn is_err(&self) -> bool {
        matches!(self, Outcome::Err(_))
    }
}

#[derive(Clone, Debug, PartialEq, Eq, Default)]
pub struct Model {
    pub queues: BTreeMap<String, MQueue>,
    pub next_incarnation: u32,
}

impl Model {
    /// Applies `op`; returns the outcome the specification prescribes (wal = 0).
    pub fn apply(&mut self, op: &Op, names: &[String]) -> Outcome {
        match op {
            Op::Restart { .. } => Outcome::Opened,
            Op::Persist { .. } => Outcome::Persisted,
            Op::Tick { .. } => Outcome::Ticked,
            Op::Create { q } => {
                let name = &names[*q];
                if self.queues.contains_key(name) {
                    return Outcome::Err(ErrKind::AlreadyExists);
                }
                self.next_incarnation += 1;
                self.queues.insert(name.clone(), MQueue { incarnation: self.next_incarnation, next: 0, recs: Vec::new() });
                Outcome::Created { wal: 0 }
            }
            Op::Delete { q } => {
                if self.queues.remove(&names[*q]).is_none() {
                    return Outcome::Err(ErrKind::MissingQueue);
                }
                Outcome::Deleted { wal: 0 }
            }
            Op::Append { q, pos, lens, uid } => {
                let Some(queue) = self.queues.get_mut(&names[*q]) else {
                    return Outcome::Err(ErrKind::MissingQueue);
                };
                if let Some(p) = pos {
                    if p.checked_add(1) == Some(queue.next) {
                        return Outcome::Appended { last: None, wal: 0 };
                    }
                    if *p < queue.next {
                        return Outcome::Err(ErrKind::Past);
                    }
                }
                if lens.is_empty() {
                    return Outcome::Appended { last: None, wal: 0 };
                }
                let start = pos.unwrap_or(queue.next);
                // u64::MAX is never a record position (the next position could not follow it): a batch that
                // does not fit below it is rejected as a whole
                if start.checked_add(lens.len() as u64).is_none() {
                    return Outcome::Err(ErrKind::Past);
                }
                for (i, &len) in lens.iter().enumerate() {
                    let bytes = payload(*uid, i as u32, len as usize);
                    queue.recs.push(Rec::of(start + i as u64, &bytes)); // cannot overflow: checked above
                }
                let last = start + lens.len() as u64 - 1;
                queue.next = last + 1;
                Outcome::Appended { last: Some(last), wal: 0 }
            }
            Op::Truncate { q, upto } => {
                let Some(queue) = self.queues.get_mut(&names[*q]) else {
                    return Outcome::Err(ErrKind::MissingQueue);
                };
                let evicted = queue.recs.iter().take_while(|r| r.pos <= *upto).count();
                queue.recs.drain(..evicted);
                queue.next = queue.next.max(upto.saturating_add(1));
                Outcome::Truncated { evicted, wal: 0 }
            }
        }
    }

    pub fn to_obs(&self) -> Obs {
        Obs {
            queues: self
                .queues
                .iter()
                .map(|(name, q)| {
                    (
                        name.clone(),
                        QObs {
                            recs: q.recs.clone(),
                            last_position: q.next.checked_sub(1),
                            last_record: q.recs.last().copied(),
                            summary_end: q.next.checked_sub(1),
                        },
                    )
                })
                .collect(),
            summary_names: self.queues.keys().cloned().collect(),
        }
    }

    /// Re-bases the model on an observed state (after a tolerated partial application).
    pub fn rebase(&mut self, obs: &Obs) {
        let mut queues = BTreeMap::new();
        for (name, q) in &obs.queues {
            let incarnation = match self.queues.get(name) {
                Some(old) => old.incarnation,
                None => {
                    self.next_incarnation += 1;
                    self.next_incarnation
                }
            };
            queues.insert(
                name.clone(),
                MQueue { incarnation, next: q.last_position.map(|p| p.saturating_add(1)).unwrap_or(0), recs: q.recs.clone() },
            );
        }
        self.queues = queues;
    }

    pub fn retained_payload_bytes(&self) -> u64 {
        self.queues.values().flat_map(|q| q.recs.iter()).map(|r| r.len as u64).sum()
    }
    pub fn retained_records(&self) -> u64 {
        self.queues.values().map(|q| q.recs.len() as u64).sum()
    }
    pub fn name_bytes(&self) -> u64 {
        self.queues.keys().map(|n| n.len() as u64).sum()
    }
}

#[derive(Clone, Debug, PartialEq, Eq, Default)]
pub struct QObs {
    pub recs: Vec<Rec>,
    pub last_position: Option<u64>,
    pub last_record: Option<Rec>,
    pub summary_end: Option<u64>,
}

/// Everything the read API shows.
#[derive(Clone, Debug, PartialEq, Eq, Default)]
pub struct Obs {
    pub queues: BTreeMap<String, QObs>,
    pub summary_names: Vec<String>,
}

impl Obs {
    pub fn digest(&self) -> u64 {
        let mut d = crate::prng::Digest::new();
        for (name, q) in &self.queues {
            d.str(name);
            d.u64(q.last_position.map(|p| p.wrapping_add(1)).unwrap_or(0));
            d.u64(q.summary_end.map(|p| p.wrapping_add(1)).unwrap_or(0));
            d.u64(q.last_record.map(|r| r.hash ^ r.pos).unwrap_or(7));
            for r in &q.recs {
                d.u64(r.pos);
                d.u64(r.hash);
                d.u64(r.len as u64);
            }
        }
        for n in &self.summary_names {
            d.str(n);
        }
        d.0
    }

    /// First difference between two observations, for reports.
    pub fn diff(&self, other: &Obs) -> String {
        let short = |n: &str| if n.len() > 12 { format!("{}..({}B)", &n[..n.char_indices().nth(8).map(|(i, _)| i).unwrap_or(n.len())], n.len()) } else { n.to_string() };
        for name in self.queues.keys() {
            if !other.queues.contains_key(name) {
                return format!("queue {} only on left", short(name));
            }
        }
        for name in other.queues.keys() {
            if !self.queues.contains_key(name) {
                return format!("queue {} only on right", short(name));
            }
        }
        for (name, a) in &self.queues {
            let b = &other.queues[name];
            if a.last_position != b.last_position {
                return format!("queue {} last_position {:?} vs {:?}", short(name), a.last_position, b.last_position);
            }
            if a.recs != b.recs {
                let apos: Vec<u64> = a.recs.iter().map(|r| r.pos).collect();
                let bpos: Vec<u64> = b.recs.iter().map(|r| r.pos).collect();
                if apos != bpos {
                    return format!(
                        "queue {} positions {:?}..{:?} (n={}) vs {:?}..{:?} (n={})",
                        short(name), apos.first(), apos.last(), apos.len(), bpos.first(), bpos.last(), bpos.len()
                    );
                }
                let i = a.recs.iter().zip(&b.recs).position(|(x, y)| x != y).unwrap();
                return format!("queue {} payload differs at position {} (len {} vs {})", short(name), a.recs[i].pos, a.recs[i].len, b.recs[i].len);
            }
            if a.last_record != b.last_record {
                return format!("queue {} last_record {:?} vs {:?}", short(name), a.last_record.map(|r| r.pos), b.last_record.map(|r| r.pos));
            }
            if a.summary_end != b.summary_end {
                return format!("queue {} summary.end {:?} vs {:?}", short(name), a.summary_end, b.summary_end);
            }
        }
        if self.summary_names != other.summary_names {
            return "summary queue set differs".to_string();
        }
        "no difference".to_string()
    }
}
