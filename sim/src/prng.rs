//! One integer decides everything: splitmix64 for stream derivation, xoshiro256** for draws.

#[inline]
pub fn splitmix64(x: u64) -> u64 {
    let mut z = x.wrapping_add(0x9E37_79B9_7F4A_7C15);
    z = (z ^ (z >> 30)).wrapping_mul(0xBF58_476D_1CE4_E5B9);
    z = (z ^ (z >> 27)).wrapping_mul(0x94D0_49BB_1331_11EB);
    z ^ (z >> 31)
}

/// Mixes several integers into one stream seed.
pub fn mix(parts: &[u64]) -> u64 {
    let mut acc = 0x243F_6A88_85A3_08D3u64;
    for &p in parts {
        acc = splitmix64(acc ^ p);
    }
    acc
}

#[derive(Clone, Debug)]
pub struct Rng {
    s: [u64; 4],
}

impl Rng {
    pub fn new(seed: u64) -> Rng {
        let mut x = seed;
        let mut s = [0u64; 4];
        for slot in s.iter_mut() {
            x = splitmix64(x);
            *slot = x;
        }
        if s == [0; 4] {
            s[0] = 1;
        }
        Rng { s }
    }

    /// Independent stream derived from this one's seed material and a label (does not advance self).
    pub fn fork(&self, label: u64) -> Rng {
        Rng::new(mix(&[self.s[0], self.s[1], self.s[2], self.s[3], label]))
    }

    #[inline]
    pub fn next_u64(&mut self) -> u64 {
        let result = self.s[1].wrapping_mul(5).rotate_left(7).wrapping_mul(9);
        let t = self.s[1] << 17;
        self.s[2] ^= self.s[0];
        self.s[3] ^= self.s[1];
        self.s[1] ^= self.s[2];
        self.s[0] ^= self.s[3];
        self.s[2] ^= t;
        self.s[3] = self.s[3].rotate_left(45);
        result
    }

    /// Uniform in 0..n (n > 0).
    #[inline]
    pub fn below(&mut self, n: u64) -> u64 {
        debug_assert!(n > 0);
        ((self.next_u64() as u128 * n as u128) >> 64) as u64
    }

    #[inline]
    pub fn usize_below(&mut self, n: usize) -> usize {
        self.below(n as u64) as usize
    }

    /// Uniform in lo..=hi.
    #[inline]
    pub fn range(&mut self, lo: u64, hi: u64) -> u64 {
        debug_assert!(lo <= hi);
        lo + self.below(hi - lo + 1)
    }

    /// True with probability num/den.
    #[inline]
    pub fn chance(&mut self, num: u64, den: u64) -> bool {
        self.below(den) < num
    }

    pub fn pick<'a, T>(&mut self, items: &'a [T]) -> &'a T {
        &items[self.usize_below(items.len())]
    }

    /// Index drawn with the given integer weights (at least one positive).
    pub fn weighted(&mut self, weights: &[u32]) -> usize {
        let total: u64 = weights.iter().map(|&w| w as u64).sum();
        let mut x = self.below(total.max(1));
        for (i, &w) in weights.iter().enumerate() {
            if x < w as u64 {
                return i;
            }
            x -= w as u64;
        }
        weights.len() - 1
    }

    pub fn shuffle<T>(&mut self, items: &mut [T]) {
        for i in (1..items.len()).rev() {
            let j = self.usize_below(i + 1);
            items.swap(i, j);
        }
    }
}

/// Fast 64-bit content hash (not cryptographic) used for payload digests and run digests.
pub fn hash_bytes(data: &[u8]) -> u64 {
    let mut h: u64 = 0xCBF2_9CE4_8422_2325 ^ (data.len() as u64).wrapping_mul(0x9E37_79B9_7F4A_7C15);
    let mut chunks = data.chunks_exact(8);
    for c in &mut chunks {
        let v = u64::from_le_bytes([c[0], c[1], c[2], c[3], c[4], c[5], c[6], c[7]]);
        h = (h ^ v).wrapping_mul(0x0000_0100_0000_01B3).rotate_left(29) ^ v.rotate_left(17);
        h = h.wrapping_mul(0x9E37_79B9_7F4A_7C15);
    }
    let rem = chunks.remainder();
    if !rem.is_empty() {
        let mut last = [0u8; 8];
        last[..rem.len()].copy_from_slice(rem);
        let v = u64::from_le_bytes(last) ^ ((rem.len() as u64) << 56);
        h = (h ^ v).wrapping_mul(0x0000_0100_0000_01B3).rotate_left(29) ^ v.rotate_left(17);
        h = h.wrapping_mul(0x9E37_79B9_7F4A_7C15);
    }
    splitmix64(h)
}

/// Incremental digest for logs of events.
#[derive(Clone, Copy, Debug)]
pub struct Digest(pub u64);

impl Digest {
    pub fn new() -> Digest {
        Digest(0x1234_5678_9ABC_DEF0)
    }
    #[inline]
    pub fn u64(&mut self, v: u64) {
        self.0 = splitmix64(self.0 ^ v);
    }
    pub fn bytes(&mut self, b: &[u8]) {
        self.u64(hash_bytes(b));
    }
    pub fn str(&mut self, s: &str) {
        self.bytes(s.as_bytes());
    }
}
