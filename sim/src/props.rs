//! Per-property specifications and run functions.
use serde_json::json;

use crate::case::Case;
use crate::check::{Found, PropSpec, RunReport, Tier};
use crate::fault::Fault;
use crate::gen::{generate, Profile};
use crate::model::Op;
use crate::prng::Digest;
use crate::run::Driver;

pub const SPECS: &[PropSpec] = &[
    PropSpec { id: "C01", level: "exploration", quick_runs: 60_000, thorough_runs: 1_500_000,
        rule: "seeded histories (1-5 queues, all policies, names 1..65535 B, payloads 0..>1 file) with clean restarts at PRNG points and after the last op; three-way oracle at each restart: state before drop == state after open == reference model. Non-trivial: a restart after >=1 roll-over or GC deletion, or with an empty / future-truncated / re-created queue. Distinct: hash of (op kinds, size classes, outcomes, policy, max files).",
        assumptions: &["file system, clock and hash seed are simulated (SimFs); WAL files are 4 blocks"] },
    PropSpec { id: "C05", level: "exploration", quick_runs: 60_000, thorough_runs: 1_500_000,
        rule: "seeded histories with deliberately invalid calls, executed in lock-step with the sequential reference model; after every call: outcome == model outcome, full observable state == model, 2 PRNG RangeBounds probes and accessors on a missing queue. Non-trivial: history has >=1 rejected/no-op call, >=1 truncate evicting part of a queue and >=1 range probe. Distinct: hash of (op kinds, size classes, outcomes, policy, max files).",
        assumptions: &["no fault involved: decided in the fault-free configuration of the simulator (restart op, deterministic hash order)"] },
    PropSpec { id: "C06", level: "exploration", quick_runs: 25_000, thorough_runs: 600_000,
        rule: "roll-over heavy seeded histories; after every truncate/delete_queue/open the SimFs directory listing and disk_used_bytes are compared with a bound computed from the write cursor (sum of wal_bytes_written) and the model's retained records. Every third history is additionally crashed at 16 sampled effect boundaries / torn writes (biased to roll-over and unlink effects, any policy); the recovered log must hold no file older than both the file recovery attributes its oldest retained record to (independent parser over the crash image) and the file recovery resumed writing in. Non-trivial: an evaluation where the call removed >=1 of >=2 files or where an older file is legitimately kept. Distinct: history signature.",
        assumptions: &["verdict on fault-free histories with clean restarts only (the statement quantifies over histories)", "record->file attribution = file holding the write cursor when the append began"] },
    PropSpec { id: "C15", level: "exploration", quick_runs: 60_000, thorough_runs: 1_500_000,
        rule: "seeded histories under all policies; per call (flush-per-call policies) or per flush point (others) the sum of wal_bytes_written is compared with the bytes of the Write effects on WAL files, and the running sum with the file-system write cursor. Non-trivial: history wrote padding, rolled over, or GC wrote position records. Distinct: history signature.",
        assumptions: &["bytes written by the GC inside open are not attributed to any call"] },
    PropSpec { id: "C16", level: "exploration", quick_runs: 40_000, thorough_runs: 1_600_000,
        rule: "seeded histories; after every call N+B <= memory_used_bytes <= N+B+64R, used <= allocated, truncate releases between b and b+64n, names-only baseline when all queues are empty; every fourth run additionally opens 8 damaged copies of the final image (single-frame payload damage, aimed overwrites) and requires the same bounds of the recovered log relative to the state it shows. Non-trivial: history has a truncate evicting part of a queue and a point where all queues are empty. Distinct: history signature.",
        assumptions: &["state invariant monitored while simulated histories run; no fault enters this property"] },
    PropSpec { id: "C17", level: "exploration", quick_runs: 8_000, thorough_runs: 300_000,
        rule: "SimFs directory pre-populated with 1-8 foreign entries (near-miss names, other lengths, non-ASCII digits, non-UTF-8, dirs and symlinks incl. ones named like WAL files, WAL-like content), then roll-over heavy histories; every Open/Read/Create/SetLen/Write/Sync/Unlink effect must name a wal-<20 digits> regular file and foreign entries must stay byte-identical; differential: the same history without the foreign entries must return the same outcomes and states; gaps: every second run renumbers the WAL files of the final image with an order-preserving PRNG map (gaps up to 2^40, first number != 0) and requires the same state after open, a working continuation, and new files numbered after the highest. Non-trivial: foreign file and dir/symlink present while GC deleted a file. Distinct: history signature x foreign name classes.",
        assumptions: &["simulated symlinks dangle; file_type does not follow symlinks (as std::fs::DirEntry::file_type)"] },
];

pub fn spec(id: &str) -> Option<&'static PropSpec> {
    SPECS.iter().chain(crate::props2::SPECS.iter()).chain(crate::props3::SPECS.iter()).chain(crate::props4::SPECS.iter()).find(|s| s.id == id)
}

pub fn case_signature(case: &Case, d: &Driver) -> u64 {
    let mut dg = Digest::new();
    dg.u64(case.policy.tag());
    for s in &d.steps {
        dg.u64(s.op.kind() as u64);
        let class = match &s.op {
            Op::Append { lens, pos, .. } => {
                let total: u64 = lens.iter().map(|&l| l as u64).sum();
                let c = match total { 0 => 0, 1..=64 => 1, 65..=2000 => 2, 2001..=32000 => 3, 32001..=131072 => 4, _ => 5 };
                c * 8 + (lens.len().min(3) as u64) * 2 + pos.is_some() as u64
            }
            _ => 0,
        };
        dg.u64(class);
        dg.u64(s.outcome.is_err() as u64);
    }
    dg.u64(d.probes.max_files);
    dg.0
}

pub fn state_signature(d: &Driver) -> u64 {
    let mut dg = Digest::new();
    dg.u64(d.model.to_obs().digest());
    dg.u64(d.n_files() as u64);
    dg.u64(d.cursor.map(|c| (c.1 % 32768) as u64).unwrap_or(99999));
    dg.0
}

pub fn sample_of(case: &Case, d: &Driver, verdict: &str) -> serde_json::Value {
    json!({
        "policy": format!("{:?}", case.policy),
        "knobs": format!("{:?}", case.knobs),
        "queue_name_lengths": case.names.iter().map(|n| n.len).collect::<Vec<_>>(),
        "foreign": case.foreign.iter().map(|f| f.name.clone()).collect::<Vec<_>>(),
        "ops": d.steps.iter().take(40).map(|s| format!("{} -> {:?}", s.op.short(), s.outcome)).collect::<Vec<_>>(),
        "effects": d.world.trace_len(),
        "verdict": verdict,
    })
}

/// Run function of the properties decided on fault-free histories.
pub fn run_hist(prop: &str, seed: u64, index: usize, _tier: Tier) -> RunReport {
    let (profile, buggify, n_foreign) = match prop {
        "C06" => (Profile::Rolling, true, 0),
        "C17" => (Profile::Rolling, false, 1 + (seed % 8) as usize),
        "C01" | "C05" | "C15" | "C16" => (Profile::General, true, 0),
        _ => (Profile::General, false, 0),
    };
    let (case, d) = if prop == "C17" {
        // keep issuing calls after a roll-over that failed because a foreign entry occupies the next WAL name
        crate::gen::generate_opts(seed, profile, buggify, n_foreign, true, true)
    } else if prop == "C06" && seed % 8 == 0 {
        // a directory / symlink squats the name of one of the next WAL files: the roll-over onto it fails, the calls
        // go on; what the directory holds must stay a contiguous run of WAL files
        crate::gen::generate_opts(seed, profile, buggify, crate::gen::SQUATTER, true, true)
    } else if prop == "C01" {
        // C01 speaks of the state the log *shows* before it is dropped: the driver does not stop where a live call
        // departs from the reference model (that is C05's business); the model is re-based on what the log shows and
        // the next clean restart has to reproduce exactly that
        crate::gen::generate_with(seed, profile, buggify, n_foreign, true)
    } else {
        generate(seed, profile, buggify, n_foreign)
    };
    let mut rep = RunReport::default();
    rep.evaluations = 1;
    rep.digest = d.digest.0;
    rep.sim_clock_ns = d.world.clock_ns - 1_000_000_000;
    let p = &d.probes;
    let nontrivial = match prop {
        "C01" => p.restarts > 1 && (p.rollover > 0 || p.gc_deleted_file > 0 || p.future_truncate > 0 || p.queue_recreated > 0 || p.all_empty_points > 0),
        "C05" => (p.rejected_calls + p.idempotent_retry) > 0 && p.partial_truncates > 0 && p.range_probes > 0,
        "C06" => p.c06_removed > 0 || p.c06_kept_older > 0,
        "C15" => p.padding_written > 0 || p.rollover > 0 || p.gc_wrote_positions > 0,
        "C16" => p.partial_truncates > 0 && p.all_empty_points > 0,
        "C17" => {
            let has_file = case.foreign.iter().any(|f| matches!(f.kind, crate::case::ForeignKind::File { .. } | crate::case::ForeignKind::WalLike { .. }));
            let has_other = case.foreign.iter().any(|f| matches!(f.kind, crate::case::ForeignKind::Dir | crate::case::ForeignKind::Symlink));
            has_file && has_other && p.gc_deleted_file > 0
        }
        _ => true,
    };
    if nontrivial {
        rep.signatures.push(case_signature(&case, &d));
    }
    rep.states.push(state_signature(&d));
    if !d.conformance_ok() && prop != "C05" && prop != "C01" {
        rep.count("histories_cut_short_by_a_conformance_failure", 1);
    }
    if prop == "C17" && d.first_failure("C17").is_none() {
        let mut extra = crate::meta::c17_differential(&case);
        rep.evaluations += 1;
        if extra.is_empty() && seed % 2 == 0 {
            let (f, ran) = crate::meta::c17_gaps(&case, case.probe_seed);
            if ran {
                rep.evaluations += 1;
                rep.count("gap_renumbering_cases", 1);
            }
            extra = f;
        }
        if let Some(f) = extra.into_iter().next() {
            rep.found.push(Found { prop: prop.to_string(), clause: f.clause, detail: f.detail, case: case.clone(), fault: Fault::None });
        }
    }
    for f in d.failures.iter().filter(|f| f.prop == prop) {
        let mut c = case.clone();
        c.ops.truncate(f.op_index + 1);
        // keep the trailing restart for properties that need it? the failing op is the last needed one
        rep.found.push(Found { prop: prop.to_string(), clause: f.clause.clone(), detail: f.detail.clone(), case: c, fault: Fault::None });
        break;
    }
    if prop == "C06" && d.conformance_ok() && rep.found.is_empty() && seed % 3 == 0 {
        c06_crash_part(prop, seed, &case, &d, &mut rep);
    }
    if (prop == "C01" || prop == "C17") && index % 400 == 0 {
        // SimFs fidelity: the same history with every fs call mirrored on the real file system
        let mism = crate::twin::validate(&case, seed);
        rep.count("simfs_validated_runs", 1);
        for m in mism {
            rep.harness_errors.push(format!("SimFs disagrees with the real file system: {m}"));
        }
    }
    if prop == "C16" && d.conformance_ok() && rep.found.is_empty() && seed % 4 == 0 {
        // the same invariant on logs recovered from damaged and crashed images
        c16_recovered(prop, seed, &case, &mut rep);
    }
    if index < 3 {
        rep.sample = Some(sample_of(&case, &d, if rep.found.is_empty() { "held" } else { "VIOLATION" }));
    }
    rep.probes = d.probes.clone();
    let fired = d.world.fs.borrow().fired.clone();
    rep.count("fault_short_write_fired", fired.short_write);
    rep.count("fault_short_read_fired", fired.short_read);
    rep.count("fault_eintr_fired", fired.eintr);
    rep
}

/// C16 on recovered logs: damaged images (frame payload damage, aimed overwrites) and crash images.
fn c16_recovered(prop: &str, seed: u64, case: &Case, rep: &mut RunReport) {
    use crate::damage::{aimed_overwrite, apply_damage, base_image, frame_payload_damage, judge};
    use crate::fault::DamageOp;
    let Some((d, image, parsed)) = base_image(case) else { return };
    let mut rng = crate::prng::Rng::new(crate::prng::mix(&[seed, 0xC16]));
    let policy = d.world.policy;
    for k in 0..8 {
        let ops: Vec<DamageOp> = if k % 2 == 0 && !parsed.frames.is_empty() {
            let fi = rng.usize_below(parsed.frames.len());
            match frame_payload_damage(&parsed, fi, rng.below(6) as u8, &mut rng) {
                Some(op) => vec![op],
                None => continue,
            }
        } else {
            (0..1 + rng.usize_below(2)).map(|_| aimed_overwrite(&parsed, &image, &mut rng)).collect()
        };
        let damaged = apply_damage(&image, &ops);
        let ev = judge(prop, Some(&d), &d.names, policy, &case.knobs, &damaged, None, &format!("damage {:?}", ops));
        rep.evaluations += 1;
        rep.count("recovered_logs_checked_after_damage", ev.open_ok as u64);
        for f in ev.failures.iter().filter(|f| f.prop == prop) {
            if rep.found.is_empty() {
                rep.found.push(Found { prop: prop.to_string(), clause: f.clause.clone(), detail: f.detail.clone(), case: case.clone(), fault: Fault::Damage { ops: ops.clone() } });
            }
        }
    }
}

/// C06 on logs returned by crash recovery (any policy): sampled crash boundaries of the history.
fn c06_crash_part(prop: &str, seed: u64, case: &Case, d: &Driver, rep: &mut RunReport) {
    use crate::crash::{c06_after_recovery, enumerate_points, recover, ImageWalker};
    let mut rng = crate::prng::Rng::new(crate::prng::mix(&[seed, 0xC06C]));
    let mut pts = enumerate_points(d, false, &mut rng);
    pts.retain(|p| p.byte.is_none() || rng.chance(1, 8));
    // prefer boundaries around file creation (roll-over) and removal
    let fs = d.world.fs.borrow();
    let near_rollover = |p: &crate::crash::Point| -> bool {
        (p.idx.saturating_sub(2)..(p.idx + 3).min(fs.trace.len())).any(|i| matches!(fs.trace[i].eff, crate::simfs::Eff::Create { .. } | crate::simfs::Eff::SetLen { .. } | crate::simfs::Eff::Unlink { .. }))
    };
    let (mut hot, mut cold): (Vec<_>, Vec<_>) = pts.into_iter().partition(|p| near_rollover(p));
    rng.shuffle(&mut hot);
    rng.shuffle(&mut cold);
    hot.truncate(10);
    cold.truncate(6);
    hot.extend(cold);
    hot.sort_by_key(|p| (p.idx, p.byte));
    let mut walker = ImageWalker::new(&fs.trace, &fs.bases[0].1);
    for p in &hot {
        let image = walker.image_at(p.idx, p.byte);
        let policy = if p.b < d.steps.len() { d.steps[p.b].policy } else { case.policy };
        rep.evaluations += 1;
        rep.count("fault_process_crash", 1);
        if let Ok((w, obs)) = recover(&image, &d.names, policy, &case.knobs) {
            rep.count("recovered_logs_checked_after_crash", 1);
            if let Some(msg) = c06_after_recovery(&w, &obs, &image) {
                if rep.found.is_empty() {
                    rep.found.push(Found {
                        prop: prop.to_string(), clause: "file-not-reclaimed-after-crash".to_string(), detail: msg, case: case.clone(),
                        fault: Fault::Crash { at: crate::fault::CrashPoint { op: p.b.min(d.steps.len()), eff_in_op: p.eff_in_op, byte: p.byte, powerloss: None }, second: None, cont: vec![] },
                    });
                }
            }
        }
    }
}
