//! Specifications and run functions of the fault-injecting and metamorphic properties.
use serde_json::json;

use crate::check::{Found, Merged, PropSpec, RunReport, Tier};
use crate::crash::{enumerate_points, point_signature, powerloss_image, test_c03, test_process_crash, Cont, CrashStats, ImageWalker, Level, Matched, Point};
use crate::fault::{CrashPoint, Fault};
use crate::gen::{generate, Profile};
use crate::prng::{mix, Rng};
use crate::props::{sample_of, state_signature};
use crate::simfs::Eff;

pub const SPECS: &[PropSpec] = &[
    PropSpec { id: "C02", level: "fault_enumeration", quick_runs: 4_000, thorough_runs: 400,
        rule: "per seeded history (flush-per-call policies): crash points = every effect boundary at which the image or the in-flight op changes + torn-write offsets (thorough: all boundaries, every byte of writes <= 512 B, boundary-biased + 64 random offsets above; quick: a seeded sample of 40 points per history that always contains every create/set_len/unlink boundary); each image is recovered by the real open, matched against Exact(k) | Exact(k+1) | Partial(k, op), continued for 3-10 ops in lock-step with the model, cleanly restarted, and for recoveries that wrote, crashed a second time. Non-trivial: crash strictly inside a mutating call (torn write or after its first effect) with >= 1 completed call before. Distinct: hash of (effect class hit, in-flight op kind, torn-offset class, write offset/size class, matched state kind, files, policy).",
        assumptions: &["process-crash model: effects reach the OS in program order, user-space buffers are lost", "crash images are rebuilt from the effect trace of an uninterrupted execution (behaviour before the crash is by construction that of the fault-free run)"] },
    PropSpec { id: "C03", level: "fault_enumeration", quick_runs: 3_500, thorough_runs: 2_500,
        rule: "per seeded history (all policies, explicit persists, clock jumps): every crash boundary (as C02) under the process-crash model and under the power-loss model (durable view + seeded subset of unsynced effects: 3 masks per point in quick, 10 in thorough, incl. the extremes); oracle = persisted-superset PS(P) with P the last obliging call (create/delete any policy, persist, every mutating call under Always). Non-trivial: >=1 completed call after P was lost or in flight at the crash and the history had rolled over, or the point directly follows an unlink. Distinct: signature as C02 x loss model.",
        assumptions: &["power-loss model is POSIX-permissive: unsynced data lost per 512-byte sector, each unsynced create/unlink/set_len independently kept or lost", "fdatasync makes content and length of that file durable, directory fsync makes names durable"] },
    PropSpec { id: "C04", level: "exploration", quick_runs: 3_500, thorough_runs: 1_000,
        rule: "idle-queue histories (1-2 queues emptied or left idle while others roll and GC) under flush-per-call policies; model-independent high-water-mark monitor over every returned/observed/truncated-to position, live, across restarts and after recovery from sampled crash points (then an append on every surviving queue). Non-trivial: an append to a queue all of whose earlier entries lived in files that no longer exist, or a post-crash append. Distinct: signature as C02.",
        assumptions: &["process-crash model as C02"] },
    PropSpec { id: "C12", level: "fault_enumeration", quick_runs: 3_500, thorough_runs: 1_000,
        rule: "batch-heavy histories (2-50 records, totals 30 B .. > 2 files, alignment targeting); crash points inside every batch append (as C02; process crash, plus power loss under Always(FlushAndFsync)) and single-frame damage of every frame of batch entries (header and payload); oracle: recovered records of a batch are all, none, or all minus a leading part targeted by a truncate/delete. Non-trivial: batch spans >= 2 frames and the fault lands strictly inside its byte range. Distinct: signature as C02 / damaged field class.",
        assumptions: &["as C02 and C08"] },
    PropSpec { id: "C11", level: "fault_enumeration", quick_runs: 18_000, thorough_runs: 300_000,
        rule: "per seeded history: the image left by a clean drop (1-6 WAL files); fault-free recovery is traced and for EVERY directory-listing / file_type / open / seek / read call it makes an error is injected (thorough: x {EIO, EACCES, ENOENT, EMFILE} x {transient, persistent} x for reads {0, 1, 16384, len-1} bytes delivered first; quick: all calls x both persistence kinds x one seeded errno x two consumed values). Oracle: open returns within (fault-free calls + 50) fs calls with Err(IoError). Non-trivial: the failing call concerns a non-first WAL file or is a read after the first block. Distinct: hash of (call class, file ordinal, errno, persistence, consumed class, files in image).",
        assumptions: &["write-path errors (set_len, write, fsync, unlink) are not injected: no listed property covers them", "Interrupted is a buggify kind (std retries it), UnexpectedEof is a short file (C10)"] },
];

pub fn runner(prop: &str) -> Option<fn(&str, u64, usize, Tier) -> RunReport> {
    match prop {
        "C02" | "C04" | "C12" => Some(run_crash),
        "C03" => Some(run_c03),
        "C11" => Some(run_c11),
        "C08" => Some(crate::props3::run_c08),
        "C09" => Some(crate::props3::run_c09),
        "C10" => Some(crate::props3::run_c10),
        "C13" => Some(crate::props4::run_c13),
        "C14" => Some(crate::props4::run_c14),
        "C18" => Some(crate::props4::run_c18),
        "C07" => Some(crate::props4::run_c07),
        _ => None,
    }
}

pub fn extra_evidence(_prop: &str, _m: &Merged) -> serde_json::Value {
    json!({})
}

fn crash_point_of(d: &crate::run::Driver, p: &Point, powerloss: Option<u64>) -> CrashPoint {
    CrashPoint { op: p.b.min(d.steps.len()), eff_in_op: p.eff_in_op, byte: p.byte, powerloss }
}

/// Chooses the crash points of a run: all of them (thorough) or a seeded sample that always
/// contains the boundaries around create / set_len / unlink effects (quick).
fn select_points(d: &crate::run::Driver, pts: Vec<Point>, thorough: bool, quota: usize, rng: &mut Rng) -> Vec<Point> {
    if thorough || pts.len() <= quota {
        return pts;
    }
    let fs = d.world.fs.borrow();
    let mut keep: Vec<bool> = pts
        .iter()
        .map(|p| {
            if p.byte.is_some() {
                return false;
            }
            let here = fs.trace.get(p.idx).map(|e| matches!(e.eff, Eff::Create { .. } | Eff::SetLen { .. } | Eff::Unlink { .. })).unwrap_or(true);
            let prev = p.idx > 0 && matches!(fs.trace[p.idx - 1].eff, Eff::Create { .. } | Eff::SetLen { .. } | Eff::Unlink { .. });
            here || prev
        })
        .collect();
    let forced = keep.iter().filter(|&&k| k).count();
    let mut rest: Vec<usize> = (0..pts.len()).filter(|&i| !keep[i]).collect();
    rng.shuffle(&mut rest);
    for &i in rest.iter().take(quota.saturating_sub(forced)) {
        keep[i] = true;
    }
    pts.into_iter().zip(keep).filter(|(_, k)| *k).map(|(p, _)| p).collect()
}

pub fn run_crash(prop: &str, seed: u64, index: usize, tier: Tier) -> RunReport {
    let thorough = tier == Tier::Thorough;
    let profile = match prop {
        "C04" => Profile::IdleQueues,
        "C12" => Profile::Batches,
        _ => Profile::AlwaysFlush,
    };
    // short writes / short reads / EINTR are legal kernel behaviour: enabled in a third of the runs (they also
    // change how entries are cut into write effects, hence the torn-write shapes)
    let (case, d) = if prop == "C12" {
        // lenient: a batch that is applied only in part shows as a divergence from the model first; keep watching
        crate::gen::generate_with(seed, profile, true, 0, true)
    } else {
        generate(seed, profile, prop != "C04", 0)
    };
    let mut rep = RunReport::default();
    rep.digest = d.digest.0;
    rep.probes = d.probes.clone();
    rep.states.push(state_signature(&d));
    if prop == "C12" {
        if let Some(f) = d.first_failure("C12") {
            let mut c = case.clone();
            c.ops.truncate(f.op_index + 1);
            rep.found.push(Found { prop: prop.to_string(), clause: f.clause.clone(), detail: f.detail.clone(), case: c, fault: Fault::None });
        }
    }
    if prop == "C04" && !d.conformance_ok() {
        // lenient driver: the model-independent monitor kept running after the divergence
        if let Some(f) = d.first_failure("C04") {
            let mut c = case.clone();
            c.ops.truncate(f.op_index + 1);
            rep.found.push(Found { prop: prop.to_string(), clause: f.clause.clone(), detail: f.detail.clone(), case: c, fault: Fault::None });
        }
    }
    if !d.conformance_ok() {
        rep.count("histories_skipped_conformance_broken", 1);
        rep.evaluations = 1;
        return rep;
    }
    if prop == "C04" {
        // the live monitor's verdict on the fault-free history
        if let Some(f) = d.first_failure("C04") {
            let mut c = case.clone();
            c.ops.truncate(f.op_index + 1);
            rep.found.push(Found { prop: prop.to_string(), clause: f.clause.clone(), detail: f.detail.clone(), case: c, fault: Fault::None });
        }
        if d.probes.c04_appends_after_files_gone > 0 {
            rep.signatures.push(crate::props::case_signature(&case, &d));
        }
        rep.evaluations += 1;
    }
    if prop == "C12" {
        crate::props3::c12_damage(prop, seed, &case, thorough, &mut rep);
    }
    let mut rng = Rng::new(mix(&[seed, 0xC2A5]));
    let pts = enumerate_points(&d, thorough, &mut rng);
    rep.count("crash_points_enumerated", pts.len() as u64);
    let quota = match prop {
        "C04" => 16,
        _ => 40,
    };
    let pts = select_points(&d, pts, thorough, quota, &mut rng);
    let mut stats = CrashStats::default();
    let trace_len = d.world.trace_len();
    let fs = d.world.fs.borrow();
    let mut walker = ImageWalker::new(&fs.trace, &fs.bases[0].1);
    let mut digest = crate::prng::Digest::new();
    let mut sample_done = false;
    for (pi, p) in pts.iter().enumerate() {
        let image = walker.image_at(p.idx, p.byte);
        let cont_seed = mix(&[seed, p.idx as u64, p.byte.map(|b| b as u64 + 1).unwrap_or(0)]);
        let o = test_process_crash(&d, &case, p.b, &image, Cont::Generate(cont_seed), &mut stats, None);
        rep.evaluations += 1;
        digest.u64(o.failures.len() as u64);
        digest.u64(match &o.matched { Some(Matched::Exact(j)) => *j as u64, Some(Matched::Partial) => 1 << 40, _ => 1 << 41 });
        let inside = p.b >= 2 && p.b < d.steps.len() && (p.byte.is_some() || p.eff_in_op > 0) && p.idx < trace_len;
        if inside {
            rep.signatures.push(point_signature(&d, p, &o.matched));
        }
        // probes on where the crash fell
        if let Some(e) = fs.trace.get(p.idx) {
            match &e.eff {
                Eff::SetLen { .. } if p.idx > 0 && matches!(fs.trace[p.idx - 1].eff, Eff::Create { .. }) => rep.count("crash_between_create_and_setlen", 1),
                Eff::Unlink { .. } if p.idx > 0 && matches!(fs.trace[p.idx - 1].eff, Eff::Unlink { .. }) => rep.count("crash_between_unlinks", 1),
                Eff::Unlink { .. } => rep.count("crash_before_first_unlink", 1),
                Eff::Write { .. } if p.byte.map(|n| n < 7).unwrap_or(false) => rep.count("torn_header", 1),
                Eff::Write { .. } if p.byte.is_some() => rep.count("torn_payload", 1),
                _ => {}
            }
        }
        for f in o.failures.iter().filter(|f| f.prop == prop) {
            rep.found.push(Found {
                prop: prop.to_string(), clause: f.clause.clone(), detail: f.detail.clone(), case: case.clone(),
                fault: Fault::Crash { at: crash_point_of(&d, p, None), second: None, cont: o.cont_used.clone() },
            });
        }
        // C12: a crash inside a batch, then an entry of exactly the missing size right behind the torn fragments
        if prop == "C12" && p.b < d.steps.len() && (p.byte.is_some() || p.eff_in_op > 0) && rep.found.is_empty() {
            if let Some(cont) = crate::crash::continuation_filling_the_gap(&d, p.b, &image) {
                let o3 = test_process_crash(&d, &case, p.b, &image, Cont::Explicit(&cont), &mut stats, None);
                rep.evaluations += 1;
                rep.count("torn_batch_then_entry_of_the_missing_size", 1);
                for f in o3.failures.iter().filter(|f| f.prop == prop) {
                    rep.found.push(Found {
                        prop: prop.to_string(), clause: f.clause.clone(), detail: f.detail.clone(), case: case.clone(),
                        fault: Fault::Crash { at: crash_point_of(&d, p, None), second: None, cont: cont.clone() },
                    });
                }
            }
        }
        // C12: power loss under Always(FlushAndFsync)
        if prop == "C12" && p.b < d.steps.len() && matches!(d.steps[p.b].policy, crate::model::Policy::Always { fsync: true }) {
            for k in 2..4u64 {
                let mseed = (mix(&[seed, p.idx as u64, p.byte.map(|b| b as u64 + 1).unwrap_or(0), k]) & !3) | k;
                let pimage = powerloss_image(&fs.trace, &fs.bases[0].1, p.idx, p.byte, mseed);
                rep.evaluations += 1;
                rep.count("fault_power_loss", 1);
                if let Ok((_w, obs)) = crate::crash::recover(&pimage, &d.names, d.steps[p.b].policy, &case.knobs) {
                    if let Some(msg) = crate::crash::batch_atomicity(&d, p.b, &obs) {
                        rep.found.push(Found {
                            prop: prop.to_string(), clause: "batch-torn-by-power-loss".to_string(), detail: msg, case: case.clone(),
                            fault: Fault::Crash { at: crash_point_of(&d, p, Some(mseed)), second: None, cont: vec![] },
                        });
                    }
                }
            }
        }
        // second crash inside the recovery's own writes
        if prop == "C02" && !o.recovery_mutations.is_empty() && o.failures.is_empty() {
            let mut idxs = o.recovery_mutations.clone();
            idxs.push(idxs.last().unwrap() + 1);
            let take = if thorough { idxs.len() } else { 2 };
            rng.shuffle(&mut idxs);
            for &ridx in idxs.iter().take(take) {
                let o2 = test_process_crash(&d, &case, p.b, &image, Cont::Generate(cont_seed ^ ridx as u64), &mut stats, Some((ridx, None)));
                rep.evaluations += 1;
                rep.count("crash_in_recovery", 1);
                for f in o2.failures.iter().filter(|f| f.prop == prop) {
                    rep.found.push(Found {
                        prop: prop.to_string(), clause: f.clause.clone(), detail: f.detail.clone(), case: case.clone(),
                        fault: Fault::Crash { at: crash_point_of(&d, p, None), second: Some((ridx, None)), cont: o2.cont_used.clone() },
                    });
                }
            }
        }
        if index < 3 && !sample_done && pi == pts.len() / 2 {
            sample_done = true;
            let mut s = sample_of(&case, &d, "held");
            s["crash"] = json!({"trace_index": p.idx, "byte": p.byte, "in_flight_op": p.b, "effect": fs.trace.get(p.idx).map(|e| e.eff.short()), "recovered_as": format!("{:?}", o.matched), "continuation": o.cont_used.iter().map(|x| x.short()).collect::<Vec<_>>()});
            rep.sample = Some(s);
        }
        if rep.found.len() > 8 {
            break;
        }
    }
    rep.digest ^= digest.0;
    rep.count("recovered_exact_before", stats.recovered_exact_before);
    rep.count("recovered_exact_after", stats.recovered_exact_after);
    rep.count("recovered_partial_truncate_or_delete", stats.recovered_partial);
    rep.count("continuations_run", stats.continuations);
    rep.count("recoveries_that_wrote", stats.recovery_wrote);
    rep.count("fault_process_crash", pts.len() as u64);
    rep
}

pub fn run_c03(prop: &str, seed: u64, index: usize, tier: Tier) -> RunReport {
    let thorough = tier == Tier::Thorough;
    let (case, d) = generate(seed, Profile::AllPolicies, false, 0);
    let mut rep = RunReport::default();
    rep.digest = d.digest.0;
    rep.probes = d.probes.clone();
    rep.states.push(state_signature(&d));
    rep.sim_clock_ns = d.world.clock_ns - 1_000_000_000;
    if !d.conformance_ok() {
        rep.count("histories_skipped_conformance_broken", 1);
        rep.evaluations = 1;
        return rep;
    }
    let mut rng = Rng::new(mix(&[seed, 0xC3]));
    let pts = enumerate_points(&d, false, &mut rng);
    rep.count("crash_points_enumerated", pts.len() as u64);
    // torn writes are sampled, boundaries are all kept
    let pts: Vec<Point> = if thorough { pts } else { select_points(&d, pts, false, 48, &mut rng) };
    let fs = d.world.fs.borrow();
    let mut walker = ImageWalker::new(&fs.trace, &fs.bases[0].1);
    let n_masks = if thorough { 10 } else { 3 };
    let mut digest = crate::prng::Digest::new();
    let mut sample_done = false;
    for (pi, p) in pts.iter().enumerate() {
        let where_ = format!("crash at trace index {} (byte {:?}) while op {} was in flight", p.idx, p.byte, p.b);
        // process crash
        let image = walker.image_at(p.idx, p.byte);
        let (fails, prefix) = test_c03(&d, &case, p.b, &image, Level::Proc, &where_);
        rep.evaluations += 1;
        rep.count("fault_process_crash", 1);
        if !prefix && fails.is_empty() {
            rep.count("nonprefix_states_process_crash", 1);
        }
        digest.u64(fails.len() as u64 + prefix as u64 * 2);
        for f in fails {
            rep.found.push(Found { prop: prop.to_string(), clause: f.clause, detail: f.detail, case: case.clone(), fault: Fault::Crash { at: crash_point_of(&d, p, None), second: None, cont: vec![] } });
        }
        // crash, recover, keep working, crash again (a sample of the points)
        if rep.found.is_empty() && (pi % 8 == (seed % 8) as usize || (p.byte.is_some() && pi % 3 == 0)) {
            let cseed = mix(&[seed, p.idx as u64, 0xC03C]);
            let (fails2, used) = crate::crash::test_c03_continue(&d, &case, p.b, &image, Cont::Generate(cseed), &where_);
            rep.evaluations += 1 + used.len() as u64;
            rep.count("crash_recover_continue_crash_again", 1);
            rep.count("fault_second_process_crash", used.len() as u64);
            for f in fails2 {
                rep.found.push(Found { prop: prop.to_string(), clause: f.clause, detail: f.detail, case: case.clone(), fault: Fault::Crash { at: crash_point_of(&d, p, None), second: None, cont: used.clone() } });
            }
        }
        let after_unlink = p.idx > 0 && matches!(fs.trace[p.idx - 1].eff, Eff::Unlink { .. });
        if after_unlink {
            rep.count("crash_directly_after_unlink", 1);
        }
        let p_proc = crate::crash::persist_point(&d, p.b, Level::Proc);
        let unpersisted_later = p_proc.map(|pp| pp + 1 < p.b).unwrap_or(p.b > 1);
        if (unpersisted_later && d.probes.rollover > 0) || after_unlink {
            rep.signatures.push(point_signature(&d, p, &None));
        }
        // power loss
        for k in 0..n_masks {
            let mseed = mix(&[seed, p.idx as u64, p.byte.map(|b| b as u64 + 1).unwrap_or(0), k]) & !3 | (k.min(3));
            let mseed = if k < 4 { mseed } else { mseed | 2 };
            let pimage = powerloss_image(&fs.trace, &fs.bases[0].1, p.idx, p.byte, mseed);
            let (fails, prefix) = test_c03(&d, &case, p.b, &pimage, Level::Power, &where_);
            rep.evaluations += 1;
            rep.count("fault_power_loss", 1);
            if !prefix && fails.is_empty() {
                rep.count("nonprefix_states_power_loss", 1);
            }
            digest.u64(fails.len() as u64 + prefix as u64 * 2);
            if (unpersisted_later && d.probes.rollover > 0) || after_unlink {
                rep.signatures.push(point_signature(&d, p, &None) ^ 0x9090 ^ (k.min(3)));
            }
            for f in fails {
                rep.found.push(Found { prop: prop.to_string(), clause: f.clause, detail: f.detail, case: case.clone(), fault: Fault::Crash { at: crash_point_of(&d, p, Some(mseed)), second: None, cont: vec![] } });
            }
        }
        if index < 3 && !sample_done && pi == pts.len() / 2 {
            sample_done = true;
            let mut s = sample_of(&case, &d, "held");
            s["crash"] = json!({"trace_index": p.idx, "byte": p.byte, "in_flight_op": p.b, "effect": fs.trace.get(p.idx).map(|e| e.eff.short()), "persist_point_process_crash": p_proc, "persist_point_power_loss": crate::crash::persist_point(&d, p.b, Level::Power)});
            rep.sample = Some(s);
        }
        if rep.found.len() > 8 {
            break;
        }
    }
    rep.digest ^= digest.0;
    rep
}

pub fn run_c11(prop: &str, seed: u64, index: usize, tier: Tier) -> RunReport {
    use crate::ioerr::{baseline_calls, final_image, inject, injectable, Verdict, ERRNOS};
    use crate::simfs::{Class, IoFault};
    let thorough = tier == Tier::Thorough;
    let profile = if seed % 3 == 0 { Profile::Rolling } else { Profile::Small };
    let (case, d) = generate(seed, profile, seed % 5 == 0, 0);
    let mut rep = RunReport::default();
    rep.digest = d.digest.0;
    rep.probes = d.probes.clone();
    rep.states.push(state_signature(&d));
    drop(d);
    let Some((image, names, policy)) = final_image(&case) else {
        rep.count("histories_skipped_conformance_broken", 1);
        rep.evaluations = 1;
        return rep;
    };
    // a third of the images are damaged first (garbage / invalid frame headers, aimed overwrites): recovery then
    // goes through its corrupted-block resync paths, whose I/O calls are fault targets like any other
    let mut damage: Vec<crate::fault::DamageOp> = Vec::new();
    let image = if seed % 3 == 1 {
        let parsed = crate::walparse::parse(&image);
        let mut drng = Rng::new(mix(&[seed, 0xC11D]));
        if !parsed.frames.is_empty() {
            for _ in 0..1 + drng.usize_below(2) {
                let fi = drng.usize_below(parsed.frames.len());
                let op = if drng.chance(2, 3) {
                    crate::damage::frame_header_damage(&parsed, fi, *drng.pick(&[1u8, 2, 5, 5]), &mut drng)
                } else {
                    Some(crate::damage::aimed_overwrite(&parsed, &image, &mut drng))
                };
                if let Some(op) = op {
                    damage.push(op);
                }
            }
        }
        rep.count("images_damaged_before_recovery", 1);
        crate::damage::apply_damage(&image, &damage)
    } else {
        image
    };
    let Some(calls) = baseline_calls(&image, &names, policy, &case.knobs) else {
        rep.count("baseline_recovery_failed", 1);
        rep.evaluations = 1;
        return rep;
    };
    let n_files = image.keys().filter(|n| crate::simfs::is_wal_name(n)).count();
    let mut first_file: Option<String> = None;
    let mut reads_seen = 0usize;
    let mut rng = Rng::new(mix(&[seed, 0xC11]));
    let mut digest = crate::prng::Digest::new();
    for c in calls.iter().filter(|c| injectable(c)) {
        if first_file.is_none() && !c.target.is_empty() && c.class != Class::Stat {
            first_file = Some(c.target.clone());
        }
        if c.class == Class::Read {
            reads_seen += 1;
        }
        let mut errnos: Vec<i32> = if thorough { ERRNOS.to_vec() } else { vec![*rng.pick(&ERRNOS)] };
        // EINTR from a call that std does not retry on the caller's behalf (everything but read): an error like any other
        if c.class != Class::Read && (thorough || rng.chance(1, 3)) {
            errnos.push(4);
        }
        let consumed: Vec<usize> = if c.class == Class::Read {
            if thorough { vec![0, 1, 16384, c.len.saturating_sub(1)] } else { vec![0, *rng.pick(&[1usize, 16384, c.len.saturating_sub(1).max(1)])] }
        } else {
            vec![0]
        };
        for &errno in &errnos {
            for persistent in [false, true] {
                for &cons in &consumed {
                    let f = IoFault { at: c.index, errno, persistent, consumed: cons };
                    let v = inject(&image, &names, policy, &case.knobs, calls.len(), &f);
                    rep.evaluations += 1;
                    rep.count(if persistent { "fault_ioerr_persistent" } else { "fault_ioerr_transient" }, 1);
                    rep.count(&format!("fault_ioerr_on_{:?}", c.class), 1);
                    digest.u64(match &v { Verdict::ReportedIo => 1, Verdict::NotFired => 2, Verdict::Bad(..) => 3 });
                    let nontrivial = (c.class == Class::Read && reads_seen > 1) || (!c.target.is_empty() && first_file.as_deref() != Some(&c.target) && c.class != Class::Stat);
                    if nontrivial {
                        let mut dg = crate::prng::Digest::new();
                        dg.u64(c.class as u64);
                        dg.u64(errno as u64);
                        dg.u64(persistent as u64);
                        dg.u64(match cons { 0 => 0, 1 => 1, 16384 => 2, _ => 3 });
                        dg.u64(n_files as u64);
                        dg.u64(reads_seen.min(12) as u64);
                        rep.signatures.push(dg.0);
                    }
                    match v {
                        Verdict::NotFired => rep.count("fault_not_fired", 1),
                        Verdict::ReportedIo => rep.count("reported_io_error", 1),
                        Verdict::Bad(clause, detail) => {
                            if rep.found.len() < 8 {
                                rep.found.push(Found {
                                    prop: prop.to_string(), clause: clause.to_string(),
                                    detail: format!("errno {} ({}) at recovery call {} {:?}({}): {}", errno, if persistent { "persistent" } else { "transient" }, c.index, c.class, c.target, detail),
                                    case: case.clone(),
                                    fault: Fault::IoErr { call: c.index, errno, persistent, consumed: cons, damage: damage.clone() },
                                });
                            }
                        }
                    }
                }
            }
        }
    }
    rep.digest ^= digest.0;
    if index < 3 {
        rep.sample = Some(json!({
            "history": case.ops.iter().take(30).map(|o| o.short()).collect::<Vec<_>>(),
            "wal_files_in_image": n_files,
            "recovery_calls": calls.iter().take(40).map(|c| format!("{:?}({})", c.class, c.target)).collect::<Vec<_>>(),
            "injected": "every injectable call x errno x {transient, persistent} x consumed",
            "verdict": if rep.found.is_empty() { "held" } else { "VIOLATION" },
        }));
    }
    rep
}
