//! Specifications of the fault-injecting and metamorphic properties.
use crate::check::PropSpec;

pub const SPECS: &[PropSpec] = &[];

use crate::check::{Merged, RunReport, Tier};

pub fn runner(_prop: &str) -> Option<fn(&str, u64, usize, Tier) -> RunReport> {
    None
}

pub fn extra_evidence(_prop: &str, _m: &Merged) -> serde_json::Value {
    serde_json::json!({})
}
