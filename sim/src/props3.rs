//! Run functions of the damage-based properties (C08, C09, C10) and the damage half of C12.
use serde_json::json;

use crate::check::{Found, PropSpec, RunReport, Tier};
use crate::damage::{aimed_overwrite, apply_damage, base_image, entry_hit, frame_header_damage, frame_payload_damage, judge, raw_image, structural_damage};
use crate::fault::{DamageOp, Fault};
use crate::gen::{generate, Profile};
use crate::model::{Knobs, NameSpec, Policy};
use crate::prng::{mix, Digest, Rng};
use crate::props::state_signature;
use crate::walparse::{EntryKind, Parsed, HDR};

pub const SPECS: &[PropSpec] = &[
    PropSpec { id: "C08", level: "exploration", quick_runs: 5_000, thorough_runs: 30_000,
        rule: "per seeded history (delete/re-create, batches, multi-frame entries): the cleanly dropped image is overwritten in place 1-4 times (bit, byte, 2-64 B garbage/zero, whole block, multi-block; offsets aimed with an independent WAL parser at crc/len/type/payload edges/entry header/inner batch fields/block and file edges, 30% uniform), 30 damaged images per history in quick, 300 in thorough; oracle: open does not panic or hang, and if Ok every record is one that was appended to that queue, positions strictly increasing. Non-trivial: the damage changed bytes inside a delivered frame and open still returned Ok. Distinct: hash of (damage kinds, field class hit, frame type, open result).",
        assumptions: &["up to a CRC-32 collision (a failing case whose damaged frame still verifies is counted as crc_collisions, never seen so far)"] },
    PropSpec { id: "C09", level: "exploration", quick_runs: 12_000, thorough_runs: 200_000,
        rule: "per seeded history image: frames found by the independent parser are damaged one at a time, confined to the 4 CRC bytes or the payload (bit flip in CRC, first/last/random payload byte, payload garbage, payload zero); thorough: every frame x 6 variants, quick: up to 40 sampled frames x 2 variants; oracle: open is Ok and every retained record whose append entry is not the damaged one is recovered intact and in order. Non-trivial: the damaged entry is followed by >= 1 entry for the same queue or is a control entry. Distinct: hash of (entry kind, frame type, variant, position in block class, files).",
        assumptions: &["frame layout from an independent parser over the SimFs image"] },
    PropSpec { id: "C10", level: "exploration", quick_runs: 16_000, thorough_runs: 250_000,
        rule: "three generator classes: (a) valid image + 1-6 damage ops from {overwrite, zero, truncate to any length, remove, duplicate, transpose blocks/files, append garbage, stray files/dirs/symlinks incl. WAL-named}; (b) files of PRNG bytes / CRC-valid frames in PRNG order; (c) CRC-valid frames with adversarial entry bytes (unknown type, positions near u64::MAX, lengths past the end, non-UTF-8 names, decreasing positions, First without Last, 2000 empty frames). Oracle: open does not panic, stays within the fs step budget and a 20 s watchdog, peak heap <= 16 x image + 1 MiB (counting allocator), read accessors of an Ok log do not panic. Non-trivial: the damaged directory still has >= 1 readable WAL block. Distinct: hash of (class, damage kinds, open result).",
        assumptions: &["built with overflow checks and debug assertions on (arithmetic overflow counts as a panic)"] },
];

fn changed_inside_frame(p: &Parsed, ops: &[DamageOp]) -> bool {
    ops.iter().any(|op| entry_hit(p, op).is_some())
}

fn op_kind_code(op: &DamageOp) -> u64 {
    match op {
        DamageOp::Flip { .. } => 1,
        DamageOp::Garbage { len, .. } => if *len >= 32768 { 3 } else { 2 },
        DamageOp::Zero { len, .. } => if *len >= 32768 { 5 } else { 4 },
        DamageOp::Bytes { .. } => 6,
        DamageOp::Truncate { .. } => 7,
        DamageOp::Remove { .. } => 8,
        DamageOp::Duplicate { .. } => 9,
        DamageOp::SwapBlocks { .. } => 10,
        DamageOp::SwapFiles { .. } => 11,
        DamageOp::AppendGarbage { .. } => 12,
        DamageOp::AddEntry { .. } => 13,
    }
}

fn field_class(p: &Parsed, op: &DamageOp) -> u64 {
    let (file, off) = match op {
        DamageOp::Flip { file, off, .. } | DamageOp::Garbage { file, off, .. } | DamageOp::Zero { file, off, .. } => (*file, *off),
        _ => return 0,
    };
    match p.frames.iter().find(|f| f.file == file && off >= f.off && off < f.off + HDR + f.len) {
        None => 1,
        Some(f) => {
            let w = off - f.off;
            let fc = if w < 4 { 2 } else if w < 6 { 3 } else if w < 7 { 4 } else if w < HDR + 11 { 5 } else { 6 };
            fc * 8 + f.ftype as u64
        }
    }
}

pub fn run_c08(prop: &str, seed: u64, index: usize, tier: Tier) -> RunReport {
    let thorough = tier == Tier::Thorough;
    let profile = if seed % 3 == 0 { Profile::Rolling } else { Profile::Small };
    let (case, d0) = generate(seed, profile, false, 0);
    let mut rep = RunReport::default();
    rep.digest = d0.digest.0;
    rep.probes = d0.probes.clone();
    rep.states.push(state_signature(&d0));
    drop(d0);
    let Some((d, image, parsed)) = base_image(&case) else {
        rep.count("histories_skipped_conformance_broken", 1);
        rep.evaluations = 1;
        return rep;
    };
    // the frame layout found by the independent parser is only used to aim the damage: if it disagrees with the
    // crate about a clean image (C07 reports that), the frames it did find are used and the rest is hit at random
    if !parsed.problems.is_empty() {
        rep.count("clean_images_the_independent_parser_disagrees_with", 1);
    }
    let mut rng = Rng::new(mix(&[seed, 0xC08]));
    let n_cases = if thorough { 300 } else { 30 };
    let policy = d.world.policy;
    let mut dg = Digest::new();
    for ci in 0..n_cases {
        let n_ops = 1 + rng.usize_below(4).min(rng.usize_below(4));
        let ops: Vec<DamageOp> = if ci % 5 == 4 {
            crate::damage::correlated_damage(&parsed, &mut rng)
        } else if ci % 5 == 3 && !parsed.frames.is_empty() {
            // a frame header turned to garbage / given an invalid type and another length: where does the reader go next?
            let fi = rng.usize_below(parsed.frames.len());
            let fr = parsed.frames[fi].clone();
            let mut v = Vec::new();
            if rng.chance(1, 2) {
                v.extend(frame_header_damage(&parsed, fi, 2, &mut rng));
            } else {
                v.push(DamageOp::Bytes { file: fr.file, off: fr.off + 4, data: vec![rng.next_u64() as u8, (rng.next_u64() % 128) as u8, *rng.pick(&[0u8, 5, 9, 77, 0xFF])] });
            }
            v
        } else {
            (0..n_ops).map(|_| aimed_overwrite(&parsed, &image, &mut rng)).collect()
        };
        if ops.is_empty() {
            continue;
        }
        let damaged = apply_damage(&image, &ops);
        let ev = judge(prop, Some(&d), &d.names, policy, &case.knobs, &damaged, None, &format!("damage {:?}", ops));
        rep.evaluations += 1;
        for op in &ops {
            rep.count(match op { DamageOp::Flip { .. } => "fault_bit_flip", DamageOp::Garbage { .. } => "fault_garbage", DamageOp::Zero { .. } => "fault_zero_fill", _ => "fault_other" }, 1);
        }
        rep.count(if ev.open_ok { "open_ok" } else { "open_err" }, 1);
        if let Some(crate::world::OpenFail::Corruption) = ev.open_err {
            rep.count("open_reported_corruption", 1);
        }
        dg.u64(ev.open_ok as u64 + 2 * ev.failures.len() as u64);
        if ev.open_ok && damaged != image && changed_inside_frame(&parsed, &ops) {
            let mut s = Digest::new();
            for op in &ops {
                s.u64(op_kind_code(op));
                s.u64(field_class(&parsed, op));
            }
            s.u64(parsed.files.len() as u64);
            rep.signatures.push(s.0);
        }
        for f in ev.failures.iter().filter(|f| f.prop == prop) {
            if rep.found.len() < 8 {
                let mut clause = f.clause.clone();
                if clause.starts_with("embedded-frame") && !clause.contains("-via-") {
                    clause = clause.replacen("embedded-frame", &format!("embedded-frame-{}", crate::damage::embedded_frame_route(&damaged)), 1);
                }
                rep.found.push(Found { prop: prop.to_string(), clause, detail: f.detail.clone(), case: case.clone(), fault: Fault::Damage { ops: ops.clone() } });
            }
        }
        if index < 3 && ci == 0 {
            rep.sample = Some(json!({"history": case.ops.iter().take(25).map(|o| o.short()).collect::<Vec<_>>(), "wal_files": parsed.files.len(), "frames": parsed.frames.len(), "entries": parsed.entries.len(), "damage": format!("{:?}", ops), "open": if ev.open_ok { "Ok".to_string() } else { format!("{:?}", ev.open_err) }, "verdict": if ev.failures.is_empty() { "held" } else { "VIOLATION" }}));
        }
    }
    // damage, open, write on, restart: a lost frame header followed by an entry of exactly the lost frame's size
    for _ in 0..2 {
        if let Some((ops, cont)) = crate::damage::aimed_damage_then(&parsed, &d, &mut rng) {
            let fails = crate::damage::damage_then(prop, &d, &case, &image, &ops, &cont);
            rep.evaluations += 1;
            rep.count("damage_then_continue_cases", 1);
            for f in fails {
                if rep.found.len() < 8 {
                    rep.found.push(Found { prop: prop.to_string(), clause: f.clause, detail: f.detail, case: case.clone(), fault: Fault::DamageThen { ops: ops.clone(), cont: cont.clone() } });
                }
            }
        }
    }
    rep.digest ^= dg.0;
    rep
}

pub fn run_c09(prop: &str, seed: u64, index: usize, tier: Tier) -> RunReport {
    let thorough = tier == Tier::Thorough;
    let profile = if seed % 3 == 0 { Profile::Rolling } else { Profile::Small };
    let (case, d0) = generate(seed, profile, false, 0);
    let mut rep = RunReport::default();
    rep.digest = d0.digest.0;
    rep.probes = d0.probes.clone();
    rep.states.push(state_signature(&d0));
    drop(d0);
    let Some((d, image, parsed)) = base_image(&case) else {
        rep.count("histories_skipped_conformance_broken", 1);
        rep.evaluations = 1;
        return rep;
    };
    // a checksum disagreement leaves the frame boundaries and entry contents usable; anything else does not
    if parsed.problems.iter().any(|p| !p.starts_with("crc mismatch")) {
        rep.count("clean_images_skipped_parser_structure_disagreement", 1);
        rep.evaluations = 1;
        return rep;
    }
    if !parsed.problems.is_empty() {
        rep.count("clean_images_the_independent_parser_disagrees_with", 1);
    }
    let mut rng = Rng::new(mix(&[seed, 0xC09]));
    let policy = d.world.policy;
    let nframes = parsed.frames.len();
    let mut frames: Vec<usize> = (0..nframes).collect();
    if !thorough && nframes > 40 {
        // always keep first/middle/last frames of multi-frame entries and control entries
        let mut keep: Vec<usize> = Vec::new();
        for e in &parsed.entries {
            if e.last_frame > e.first_frame {
                keep.extend([e.first_frame, (e.first_frame + e.last_frame) / 2, e.last_frame]);
            } else if !matches!(e.kind, EntryKind::Append { .. }) {
                keep.push(e.first_frame);
            }
        }
        rng.shuffle(&mut keep);
        keep.truncate(24);
        rng.shuffle(&mut frames);
        for f in frames.iter().take(16) {
            if !keep.contains(f) {
                keep.push(*f);
            }
        }
        keep.sort();
        keep.dedup();
        frames = keep;
    }
    let mut dg = Digest::new();
    let variants: Vec<u8> = if thorough { (0..6).collect() } else { Vec::new() };
    for (fi_i, &fi) in frames.iter().enumerate() {
        let vs: Vec<u8> = if thorough { variants.clone() } else { vec![rng.below(6) as u8, rng.below(6) as u8] };
        for v in vs {
            if parsed.frames[fi].entry == usize::MAX {
                continue; // orphan tail of a garbage-collected entry
            }
            let Some(op) = frame_payload_damage(&parsed, fi, v, &mut rng) else { continue };
            let entry = &parsed.entries[parsed.frames[fi].entry];
            let damaged = apply_damage(&image, std::slice::from_ref(&op));
            if damaged == image {
                continue;
            }
            let ev = judge(prop, Some(&d), &d.names, policy, &case.knobs, &damaged, Some(&entry.kind), &format!("damage {:?} in frame {} (type {}) of entry {:?}", op, fi, parsed.frames[fi].ftype, kind_name(&entry.kind)));
            rep.evaluations += 1;
            rep.count(&format!("fault_frame_damage_variant_{v}"), 1);
            dg.u64(ev.open_ok as u64 + 2 * ev.failures.len() as u64);
            let q = entry.kind.queue();
            let followed = parsed.entries[parsed.frames[fi].entry + 1..].iter().any(|e| e.kind.queue() == q);
            let control = !matches!(entry.kind, EntryKind::Append { .. });
            if followed || control {
                let mut s = Digest::new();
                s.u64(kind_code(&entry.kind));
                s.u64(parsed.frames[fi].ftype as u64);
                s.u64(v as u64);
                s.u64((parsed.frames[fi].off % 32768 / 2048) as u64);
                s.u64(parsed.files.len() as u64);
                s.u64(followed as u64);
                rep.signatures.push(s.0);
            }
            for f in ev.failures.iter().filter(|f| f.prop == prop) {
                if rep.found.len() < 8 {
                    rep.found.push(Found { prop: prop.to_string(), clause: f.clause.clone(), detail: f.detail.clone(), case: case.clone(), fault: Fault::Damage { ops: vec![op.clone()] } });
                }
            }
            if index < 3 && fi_i == 0 && rep.sample.is_none() {
                rep.sample = Some(json!({"history": case.ops.iter().take(25).map(|o| o.short()).collect::<Vec<_>>(), "frames": nframes, "damaged_frame": fi, "entry": kind_name(&entry.kind), "damage": format!("{:?}", op), "verdict": if ev.failures.is_empty() { "held" } else { "VIOLATION" }}));
            }
        }
    }
    rep.count("frames_in_images", nframes as u64);
    rep.count("frames_damaged", frames.len() as u64);
    rep.digest ^= dg.0;
    rep
}

fn kind_name(k: &EntryKind) -> &'static str {
    match k {
        EntryKind::Append { .. } => "AppendRecords",
        EntryKind::Truncate { .. } => "Truncate",
        EntryKind::Position { .. } => "RecordPosition",
        EntryKind::Delete { .. } => "DeleteQueue",
        EntryKind::Undecodable => "Undecodable",
    }
}

fn kind_code(k: &EntryKind) -> u64 {
    match k {
        EntryKind::Append { recs, .. } => 10 + recs.len().min(3) as u64,
        EntryKind::Truncate { .. } => 1,
        EntryKind::Position { .. } => 2,
        EntryKind::Delete { .. } => 3,
        EntryKind::Undecodable => 4,
    }
}

pub fn run_c10(prop: &str, seed: u64, index: usize, tier: Tier) -> RunReport {
    let thorough = tier == Tier::Thorough;
    let mut rep = RunReport::default();
    let mut rng = Rng::new(mix(&[seed, 0xC10]));
    let mut dg = Digest::new();
    let class = seed % 4; // 0,1: class (a); 2: class (b); 3: class (c)
    if class <= 1 {
        let profile = if seed % 8 < 4 { Profile::Rolling } else { Profile::Small };
        let (case, d0) = generate(seed, profile, false, 0);
        rep.digest = d0.digest.0;
        rep.states.push(state_signature(&d0));
        drop(d0);
        let Some((d, image, parsed)) = base_image(&case) else {
            rep.count("histories_skipped_conformance_broken", 1);
            rep.evaluations = 1;
            return rep;
        };
        let policy = d.world.policy;
        let n_cases = if thorough { 120 } else { 20 };
        for ci in 0..n_cases {
            let n_ops = 1 + rng.usize_below(6);
            let ops: Vec<DamageOp> = (0..n_ops).map(|_| structural_damage(&parsed, &image, &mut rng)).collect();
            let damaged = apply_damage(&image, &ops);
            crate::watchdog::arm(prop, &case, &Fault::Damage { ops: ops.clone() });
            let ev = judge(prop, Some(&d), &d.names, policy, &case.knobs, &damaged, None, &format!("damage {:?}", ops));
            crate::watchdog::disarm();
            rep.evaluations += 1;
            rep.count("class_a_damaged_valid_image", 1);
            for op in &ops {
                rep.count(&format!("fault_damage_kind_{}", op_kind_code(op)), 1);
            }
            rep.count(if ev.open_ok { "open_ok" } else { "open_err" }, 1);
            dg.u64(ev.open_ok as u64 + 2 * ev.failures.len() as u64);
            let readable = damaged.iter().any(|(n, node)| crate::simfs::is_wal_name(n) && matches!(node, crate::simfs::Node::File(dd) if dd.len() >= 32768));
            if readable && damaged != image {
                let mut s = Digest::new();
                s.u64(1);
                for op in &ops {
                    s.u64(op_kind_code(op));
                }
                s.u64(ev.open_ok as u64);
                rep.signatures.push(s.0);
            }
            rep.count("peak_alloc_max_bytes", 0);
            let e = rep.counters.entry("peak_alloc_over_image_x1000_max".to_string()).or_insert(0);
            *e = (*e).max((ev.peak_alloc as u64 * 1000) / (ev.image_bytes.max(1) as u64));
            for f in ev.failures.iter().filter(|f| f.prop == prop) {
                if rep.found.len() < 8 {
                    rep.found.push(Found { prop: prop.to_string(), clause: f.clause.clone(), detail: f.detail.clone(), case: case.clone(), fault: Fault::Damage { ops: ops.clone() } });
                }
            }
            if index < 3 && ci == 0 {
                rep.sample = Some(json!({"class": "a", "history": case.ops.iter().take(20).map(|o| o.short()).collect::<Vec<_>>(), "damage": format!("{:?}", ops), "open": if ev.open_ok { "Ok".to_string() } else { format!("{:?}", ev.open_err) }, "peak_alloc": ev.peak_alloc, "image_bytes": ev.image_bytes}));
            }
        }
    } else {
        let raw_class = if class == 2 { (seed / 4 % 2) as u8 } else { 2 };
        let case = crate::case::Case {
            names: vec![NameSpec { len: 2, tag: 0, wide: false }],
            policy: Policy::Always { fsync: false },
            knobs: Knobs { hash_seed: seed, fs_seed: seed, ..Knobs::default() },
            foreign: vec![],
            probe_seed: seed,
            ops: vec![crate::model::Op::Restart { policy: None }],
        };
        let n_cases = if thorough { 120 } else { 20 };
        for ci in 0..n_cases {
            let iseed = mix(&[seed, ci as u64]);
            let image = raw_image(iseed, raw_class);
            let fault = Fault::RawImage { seed: iseed, class: raw_class };
            crate::watchdog::arm(prop, &case, &fault);
            let ev = judge(prop, None, &case.name_strings(), case.policy, &case.knobs, &image, None, &format!("raw image class {raw_class} seed {iseed}"));
            crate::watchdog::disarm();
            rep.evaluations += 1;
            rep.count(match raw_class { 0 => "class_b_prng_bytes", 1 => "class_b_shuffled_valid_frames", _ => "class_c_forged_entries" }, 1);
            rep.count(if ev.open_ok { "open_ok" } else { "open_err" }, 1);
            dg.u64(ev.open_ok as u64 + 2 * ev.failures.len() as u64);
            let readable = image.values().any(|node| matches!(node, crate::simfs::Node::File(dd) if dd.len() >= 32768));
            if readable {
                let mut s = Digest::new();
                s.u64(2 + raw_class as u64);
                s.u64(iseed % 64);
                s.u64(ev.open_ok as u64);
                rep.signatures.push(s.0);
            }
            let e = rep.counters.entry("peak_alloc_over_image_x1000_max".to_string()).or_insert(0);
            *e = (*e).max((ev.peak_alloc as u64 * 1000) / (ev.image_bytes.max(1) as u64));
            for f in ev.failures.iter().filter(|f| f.prop == prop) {
                if rep.found.len() < 8 {
                    rep.found.push(Found { prop: prop.to_string(), clause: f.clause.clone(), detail: f.detail.clone(), case: case.clone(), fault: fault.clone() });
                }
            }
            if index < 3 && ci == 0 {
                rep.sample = Some(json!({"class": if raw_class == 2 { "c" } else { "b" }, "raw_image_seed": iseed, "files": image.iter().map(|(n, node)| format!("{n}:{}", if let crate::simfs::Node::File(d) = node { d.len() } else { 0 })).collect::<Vec<_>>(), "open": if ev.open_ok { "Ok".to_string() } else { format!("{:?}", ev.open_err) }}));
            }
        }
    }
    rep.digest ^= dg.0;
    rep
}

/// Damage half of C12: every frame of batch entries gets payload and header damage; plus multi-site damage.
pub fn c12_damage(prop: &str, seed: u64, case: &crate::case::Case, thorough: bool, rep: &mut RunReport) {
    let Some((d, image, parsed)) = base_image(case) else { return };
    if parsed.problems.iter().any(|p| !p.starts_with("crc mismatch")) {
        rep.count("clean_images_skipped_parser_structure_disagreement", 1);
        return;
    }
    let mut rng = Rng::new(mix(&[seed, 0xC12D]));
    let policy = d.world.policy;
    let mut dg = Digest::new();
    let mut batch_frames: Vec<usize> = Vec::new();
    for e in &parsed.entries {
        if let EntryKind::Append { recs, .. } = &e.kind {
            if recs.len() >= 2 {
                batch_frames.extend(e.first_frame..=e.last_frame);
            }
        }
    }
    if !thorough && batch_frames.len() > 24 {
        rng.shuffle(&mut batch_frames);
        batch_frames.truncate(24);
    }
    // control entries too: a lost delete_queue / re-creation entry makes replay meet two incarnations' batches
    // on one queue name, and what it does with the overlapping positions shows in the later batch
    let mut control_frames: Vec<usize> = Vec::new();
    for e in &parsed.entries {
        if matches!(e.kind, EntryKind::Delete { .. } | EntryKind::Position { .. } | EntryKind::Truncate { .. }) {
            control_frames.extend(e.first_frame..=e.last_frame);
        }
    }
    if !thorough && control_frames.len() > 10 {
        rng.shuffle(&mut control_frames);
        control_frames.truncate(10);
    }
    batch_frames.extend(control_frames);
    for &fi in &batch_frames {
        let mut ops_list: Vec<Vec<DamageOp>> = Vec::new();
        let pv: Vec<u8> = if thorough { (0..6).collect() } else { vec![rng.below(6) as u8] };
        for v in pv {
            if let Some(op) = frame_payload_damage(&parsed, fi, v, &mut rng) {
                ops_list.push(vec![op]);
            }
        }
        let hv: Vec<u8> = if thorough { (0..6).collect() } else { vec![rng.below(6) as u8, 4 + rng.below(2) as u8] };
        for v in hv {
            if let Some(op) = frame_header_damage(&parsed, fi, v, &mut rng) {
                ops_list.push(vec![op]);
            }
        }
        if rng.chance(1, 3) {
            ops_list.push((0..2 + rng.usize_below(2)).map(|_| aimed_overwrite(&parsed, &image, &mut rng)).collect());
        }
        for ops in ops_list {
            let damaged = apply_damage(&image, &ops);
            if damaged == image {
                continue;
            }
            let ev = judge(prop, Some(&d), &d.names, policy, &case.knobs, &damaged, None, &format!("damage {:?}", ops));
            rep.evaluations += 1;
            rep.count("fault_frame_damage", 1);
            dg.u64(ev.open_ok as u64 + 2 * ev.failures.len() as u64);
            let entry = &parsed.entries[parsed.frames[fi].entry];
            if entry.last_frame > entry.first_frame && ev.open_ok {
                let mut s = Digest::new();
                s.u64(0xD);
                s.u64(parsed.frames[fi].ftype as u64);
                s.u64(ops.iter().map(|o| op_kind_code(o) * 7 + field_class(&parsed, o)).sum::<u64>());
                s.u64((entry.last_frame - entry.first_frame).min(5) as u64);
                rep.signatures.push(s.0);
            }
            for f in ev.failures.iter().filter(|f| f.prop == prop) {
                if rep.found.len() < 8 {
                    rep.found.push(Found { prop: prop.to_string(), clause: f.clause.clone(), detail: f.detail.clone(), case: case.clone(), fault: Fault::Damage { ops: ops.clone() } });
                }
            }
        }
    }
    rep.digest ^= dg.0;
}
