//! Run functions of the metamorphic properties C13, C14, C18 and the alignment grid of C07.
use serde_json::json;

use crate::check::{Found, PropSpec, RunReport, Tier};
use crate::fault::{CrashPoint, Fault};
use crate::gen::{generate, Profile};
use crate::meta::{c13, c14, c18};
use crate::model::{Model, Op, Policy};
use crate::prng::{mix, Digest, Rng};
use crate::props::{case_signature, state_signature};
use crate::simfs::Eff;

pub const SPECS: &[PropSpec] = &[
    PropSpec { id: "C13", level: "exploration", quick_runs: 25_000, thorough_runs: 600_000,
        rule: "seeded base history H (all four policy kinds) and H+ = H with 3-10 rejected / no-op calls (create existing, delete/truncate/append missing, append past, retry of last position with a fresh non-empty batch, empty batch with every position style) inserted at PRNG points; oracle: each inserted call performs no mutating fs effect, reports wal_bytes_written 0 and leaves the state unchanged; differential: aligned calls of H and H+ have identical outcomes, states and write effects (offset, length, content hash) and the WAL images after the final clean drop are byte-identical. Non-trivial: >= 3 distinct shapes inserted, followed by >= 1 flush and a restart. Distinct: base history signature x inserted shapes.",
        assumptions: &["a read-only or sync effect during a rejected call is not a violation (the statement speaks of contents)"] },
    PropSpec { id: "C14", level: "exploration", quick_runs: 16_000, thorough_runs: 600_000,
        rule: "one seeded history (with clock ticks 0 .. > 2h and explicit persists) executed under 5 policies drawn from {DoNothing, OnDelay{1 ns, 1 ms, 1 s, 1 h} x {Flush, FlushAndFsync}, Always(Flush), Always(FlushAndFsync)}, same hash seed and knobs; oracle: executions agree call by call on outcomes (positions, eviction counts, errors) and on the full observable state, and again after the final restart. Non-trivial: the history rolled over and the executions' effect traces differ. Distinct: history signature.",
        assumptions: &["wal_bytes_written and final image equality are statistics only (the statement does not promise them)"] },
    PropSpec { id: "C18", level: "exploration", quick_runs: 8_000, thorough_runs: 40_000,
        rule: "seeded history H over 2-5 queues sharing files, with restarts; for every queue q the projection H|q (calls addressed to q + restarts/persists/ticks) runs on a fresh simulated disk; oracle (no reference model): outcomes of q's calls and exists/range/last_position/last_record of q agree at every corresponding point. Crash variant: crash inside a call addressed to another queue at sampled effect boundaries and torn writes, recover, q must equal its projection; under flush-per-call policies always, under DoNothing/OnDelay only when every call addressed to q had reached the OS (explicit persist, create/delete of any queue or clean restart after q's last call) before the crash. Non-trivial: a call addressed to another queue deleted a WAL file during the history. Distinct: history signature x q.",
        assumptions: &["process-crash model for the crash variant"] },
    PropSpec { id: "C07", level: "exploration", quick_runs: 60_000, thorough_runs: 6_000_000,
        rule: "directed histories: filler appends steer the write cursor so that r bytes remain in the block (r in 0..=24 or random), then an entry whose length leaves r' bytes (r' in 0..=24 or random) after spanning {0,1,2,3,5} extra blocks (up to ~160 KiB: crosses 1-2 four-block files), followed by {empty-payload append, 1-frame entry, multi-block entry, truncate, restart, restart-then-append, torn tail: the process dies inside a following multi-block entry (flush-per-call policies), recovery, three more entries, restart}; the first 21 875 run indices walk the complete 25x25x5x7 grid, later ones draw random cells. Oracle: (a) an independent WAL parser reads back from the SimFs image exactly the entries the calls should have produced, frames never cross a block, padding only where < 7 B remained; (b) after restart the crate's own reader yields the model state; (c) the next write lands where the parser says the log ends. Non-trivial: entry under test spans >= 2 frames, or r < 8, or r' < 8, or crosses a file end. Distinct: (r class, r' class, blocks spanned, follow-up kind).",
        assumptions: &["pure input-space statement: no fault is injected; the simulator contributes simulated files, restart at the same alignment and cursor steering"] },
];

fn gen_noop(rng: &mut Rng, m: &Model, names: &[String], uid: u32) -> Option<Op> {
    let nq = names.len();
    let existing: Vec<usize> = (0..nq).filter(|&q| m.queues.contains_key(&names[q])).collect();
    let missing: Vec<usize> = (0..nq).filter(|&q| !m.queues.contains_key(&names[q])).collect();
    for _ in 0..8 {
        let shape = rng.below(9);
        let op = match shape {
            0 if !existing.is_empty() => Some(Op::Create { q: *rng.pick(&existing) }),
            1 if !missing.is_empty() => Some(Op::Delete { q: *rng.pick(&missing) }),
            2 if !missing.is_empty() => Some(Op::Truncate { q: *rng.pick(&missing), upto: rng.below(1000) }),
            3 if !missing.is_empty() => Some(Op::Append { q: *rng.pick(&missing), pos: if rng.chance(1, 2) { None } else { Some(rng.below(10)) }, lens: vec![rng.below(500) as u32], uid }),
            4 if !existing.is_empty() => {
                let q = *rng.pick(&existing);
                let next = m.queues[&names[q]].next;
                if next >= 2 { Some(Op::Append { q, pos: Some(if rng.chance(1, 2) { rng.below((next - 1).min(1000)) } else { rng.below(next - 1) }), lens: vec![rng.below(100) as u32, 3], uid }) } else { None }
            }
            5 if !existing.is_empty() => {
                let q = *rng.pick(&existing);
                let next = m.queues[&names[q]].next;
                if next >= 1 { Some(Op::Append { q, pos: Some(next - 1), lens: vec![rng.below(3000) as u32, 1, 40000], uid }) } else { None }
            }
            6 if !existing.is_empty() => Some(Op::Append { q: *rng.pick(&existing), pos: None, lens: vec![], uid }),
            7 if !existing.is_empty() => {
                let q = *rng.pick(&existing);
                Some(Op::Append { q, pos: Some(m.queues[&names[q]].next), lens: vec![], uid })
            }
            8 if !existing.is_empty() => {
                let q = *rng.pick(&existing);
                Some(Op::Append { q, pos: Some(m.queues[&names[q]].next.saturating_add(1 + rng.below(100))), lens: vec![], uid })
            }
            _ => None,
        };
        if op.is_some() {
            return op;
        }
    }
    None
}

pub fn run_c13(prop: &str, seed: u64, index: usize, _tier: Tier) -> RunReport {
    let (case, d) = generate(seed, Profile::General, false, 0);
    let mut rep = RunReport::default();
    rep.digest = d.digest.0;
    rep.probes = d.probes.clone();
    rep.states.push(state_signature(&d));
    rep.evaluations = 1;
    if !d.conformance_ok() {
        rep.count("histories_skipped_conformance_broken", 1);
        return rep;
    }
    // the per-call oracle already ran on the base history's own rejected calls
    if let Some(f) = d.first_failure("C13") {
        let mut c = case.clone();
        c.ops.truncate(f.op_index + 1);
        rep.found.push(Found { prop: prop.to_string(), clause: f.clause.clone(), detail: f.detail.clone(), case: c, fault: Fault::None });
        return rep;
    }
    let mut rng = Rng::new(mix(&[seed, 0xC13]));
    let n_ins = 3 + rng.usize_below(8);
    let mut extra: Vec<(usize, Op)> = Vec::new();
    for k in 0..n_ins {
        let at = 1 + rng.usize_below(case.ops.len().max(2) - 1);
        if let Some(op) = gen_noop(&mut rng, &d.models[at], &d.names, 2_000_000 + 2 * k as u32) {
            extra.push((at, op));
        }
    }
    let sig = case_signature(&case, &d);
    let flushes_and_restart = d.probes.restarts > 1;
    drop(d);
    let r = c13(&case, &extra);
    rep.count("rejected_or_noop_calls_inserted", r.inserted as u64);
    for s in &r.shapes {
        rep.count(&format!("shape_{s}_inserted"), 1);
    }
    if r.shapes.len() >= 3 && flushes_and_restart {
        let mut dg = Digest::new();
        dg.u64(sig);
        for s in &r.shapes {
            dg.u64(*s as u64);
        }
        rep.signatures.push(dg.0);
    }
    rep.digest ^= r.failures.len() as u64;
    for f in r.failures {
        rep.found.push(Found { prop: prop.to_string(), clause: f.clause, detail: f.detail, case: case.clone(), fault: Fault::Insert { extra: extra.clone() } });
        break;
    }
    if index < 3 {
        rep.sample = Some(json!({"policy": format!("{:?}", case.policy), "history": case.ops.iter().take(25).map(|o| o.short()).collect::<Vec<_>>(), "inserted": extra.iter().map(|(i, o)| format!("before op {i}: {}", o.short())).collect::<Vec<_>>(), "verdict": if rep.found.is_empty() { "held" } else { "VIOLATION" }}));
    }
    rep
}

pub fn policy_set(rng: &mut Rng) -> Vec<Policy> {
    let intervals = [1u64, 1_000_000, 1_000_000_000, 3_600_000_000_000];
    let mut v = vec![Policy::DoNothing, Policy::Always { fsync: false }, Policy::Always { fsync: true }];
    v.push(Policy::OnDelay { interval_ns: *rng.pick(&intervals), fsync: false });
    v.push(Policy::OnDelay { interval_ns: *rng.pick(&intervals), fsync: true });
    rng.shuffle(&mut v);
    v
}

pub fn run_c14(prop: &str, seed: u64, index: usize, _tier: Tier) -> RunReport {
    // one run in six: a directory / symlink squats the name of one of the next WAL files, so that a roll-over fails
    // ("... returns the same positions, eviction counts and errors ...")
    let squat = seed % 6 == 0;
    let (mut case, d) = if squat { crate::gen::generate_opts(seed, Profile::AllPolicies, false, crate::gen::SQUATTER, true, true) } else { generate(seed, Profile::AllPolicies, false, 0) };
    let mut rep = RunReport::default();
    if squat && d.steps.iter().any(|s| matches!(s.outcome, crate::model::Outcome::Err(crate::model::ErrKind::Io))) {
        rep.count("histories_with_a_failed_rollover", 1);
    }
    rep.digest = d.digest.0;
    rep.probes = d.probes.clone();
    rep.states.push(state_signature(&d));
    rep.sim_clock_ns = d.world.clock_ns - 1_000_000_000;
    let sig = case_signature(&case, &d);
    drop(d);
    let mut rng = Rng::new(mix(&[seed, 0xC14]));
    let policies = policy_set(&mut rng);
    // policy changes inside the history are removed: every execution keeps one policy throughout
    for op in case.ops.iter_mut() {
        if let Op::Restart { policy } = op {
            *policy = None;
        }
    }
    let r = c14(&case, &policies);
    rep.evaluations = policies.len() as u64;
    rep.count("executions", policies.len() as u64);
    rep.count("histories_where_wal_bytes_written_differ_between_policies", (r.wal_bytes_differ > 0) as u64);
    rep.count("histories_where_final_images_differ_between_policies", (r.images_differ > 0) as u64);
    rep.count("histories_where_effect_traces_differ", r.traces_differ as u64);
    if r.rollover && r.traces_differ {
        rep.signatures.push(sig);
    }
    rep.digest ^= r.failures.len() as u64;
    for f in r.failures {
        rep.found.push(Found { prop: prop.to_string(), clause: f.clause, detail: f.detail, case: case.clone(), fault: Fault::Policies { policies: policies.clone(), ticks_seed: 0 } });
        break;
    }
    if index < 3 {
        rep.sample = Some(json!({"policies": policies.iter().map(|p| format!("{p:?}")).collect::<Vec<_>>(), "history": case.ops.iter().take(30).map(|o| o.short()).collect::<Vec<_>>(), "verdict": if rep.found.is_empty() { "held" } else { "VIOLATION" }}));
    }
    rep
}

pub fn run_c18(prop: &str, seed: u64, index: usize, tier: Tier) -> RunReport {
    let thorough = tier == Tier::Thorough;
    // crash variant: flush-per-call policies (seed % 3 == 0) or any policy with explicit persists (seed % 3 == 1:
    // a queue is compared only when all of its calls had reached the OS before the crash)
    let crash_variant = seed % 3 <= 1;
    let profile = match seed % 3 { 0 => Profile::AlwaysFlush, 1 => Profile::AllPolicies, _ => Profile::General };
    let mut rep = RunReport::default();
    // at least two queues
    let mut s = seed;
    let (case, d) = loop {
        let (c, d) = crate::gen::generate_with(s, profile, false, 0, true);
        if c.names.len() >= 2 {
            break (c, d);
        }
        s = mix(&[s, 1]);
    };
    rep.digest = d.digest.0;
    rep.probes = d.probes.clone();
    rep.states.push(state_signature(&d));
    if !d.conformance_ok() {
        // no verdict is taken from the model here: the projection oracle below compares executions with each other
        rep.count("histories_diverging_from_the_reference_model", 1);
    }
    let sig = case_signature(&case, &d);
    let mut rng = Rng::new(mix(&[seed, 0xC18]));
    let nq = case.names.len();
    for q in 0..nq {
        // crash points: effect boundaries inside calls addressed to other queues
        let mut crashes: Vec<Option<CrashPoint>> = vec![None];
        if crash_variant {
            let fs = d.world.fs.borrow();
            let mut cands: Vec<CrashPoint> = Vec::new();
            for (i, st) in d.steps.iter().enumerate() {
                if st.op.queue().map(|x| x != q).unwrap_or(false) {
                    for k in 0..=(st.eff_end - st.eff_start) {
                        let mutating_before = k > 0 && fs.trace[st.eff_start + k - 1].eff.is_mutating();
                        if k == 0 || mutating_before {
                            cands.push(CrashPoint { op: i, eff_in_op: k, byte: None, powerloss: None });
                        }
                        if let Some(Eff::Write { data, .. }) = fs.trace.get(st.eff_start + k).filter(|_| k < st.eff_end - st.eff_start).map(|e| &e.eff) {
                            if data.len() > 8 {
                                cands.push(CrashPoint { op: i, eff_in_op: k, byte: Some(1 + rng.usize_below(data.len() - 1)), powerloss: None });
                            }
                        }
                    }
                }
            }
            rng.shuffle(&mut cands);
            cands.truncate(if thorough { 64 } else { 6 });
            crashes = cands.into_iter().map(Some).collect();
            crashes.push(None);
        }
        for cp in crashes {
            let r = c18(&case, q, &cp);
            rep.evaluations += 1;
            rep.count("observations_compared", r.observations);
            if cp.is_some() {
                rep.count("fault_process_crash", 1);
            }
            if r.other_queue_gc_between {
                let mut dg = Digest::new();
                dg.u64(sig);
                dg.u64(q as u64);
                dg.u64(cp.as_ref().map(|c| c.op as u64 + 1).unwrap_or(0));
                rep.signatures.push(dg.0);
            }
            rep.digest ^= r.failures.len() as u64;
            for f in r.failures {
                if rep.found.len() < 4 {
                    rep.found.push(Found { prop: prop.to_string(), clause: f.clause, detail: f.detail, case: case.clone(), fault: Fault::Project { q, crash: cp.clone() } });
                }
            }
        }
    }
    if index < 3 {
        rep.sample = Some(json!({"queues": nq, "policy": format!("{:?}", case.policy), "history": case.ops.iter().take(30).map(|o| o.short()).collect::<Vec<_>>(), "projections": nq, "crash_variant": crash_variant, "verdict": if rep.found.is_empty() { "held" } else { "VIOLATION" }}));
    }
    rep
}

pub fn run_c07(prop: &str, seed: u64, index: usize, _tier: Tier) -> RunReport {
    use crate::c07::{directed, grid_cell, oracle, Cell, EXTRAS, GRID};
    let mut rng = Rng::new(mix(&[seed, 0xC07]));
    // the first GRID run indices walk the complete grid; later ones draw random cells incl. random r / r'
    let cell = if index < GRID {
        grid_cell(index)
    } else {
        Cell {
            r: if rng.chance(1, 2) { rng.usize_below(25) } else { rng.usize_below(32768) },
            r2: if rng.chance(1, 2) { rng.usize_below(25) } else { rng.usize_below(32768) },
            extra: *rng.pick(&EXTRAS),
            follow: rng.below(7) as u8,
        }
    };
    let (case, d, aimed) = directed(seed, cell);
    let mut rep = RunReport::default();
    rep.evaluations = 1;
    rep.digest = d.digest.0;
    rep.probes = d.probes.clone();
    rep.states.push(state_signature(&d));
    rep.count(if aimed { "cells_hit_exactly" } else { "cells_missed_by_steering" }, 1);
    if index < GRID {
        rep.count("grid_cells_visited", 1);
    }
    let fails = oracle(&d);
    let nontrivial = aimed && (cell.extra > 0 || cell.r < 8 || cell.r2 < 8 || d.probes.entry_spans_files > 0);
    if nontrivial {
        let mut dg = Digest::new();
        dg.u64(cell.r.min(25) as u64);
        dg.u64(cell.r2.min(25) as u64);
        dg.u64(cell.extra as u64);
        dg.u64(cell.follow as u64);
        rep.signatures.push(dg.0);
    }
    if d.probes.entry_spans_files > 0 {
        rep.count("entry_crossed_file_end", 1);
    }
    let fired = d.world.fs.borrow().fired.clone();
    rep.count("fault_short_write_fired", fired.short_write);
    rep.count("fault_short_read_fired", fired.short_read);
    rep.count("fault_eintr_fired", fired.eintr);
    for f in fails {
        rep.found.push(Found { prop: prop.to_string(), clause: f.clause, detail: f.detail, case: case.clone(), fault: Fault::None });
        break;
    }
    // torn tail: the process dies inside the multi-block entry that follows the entry under test; entries
    // written after recovery start right behind the torn fragments and must round-trip like any other
    if cell.follow == 6 && rep.found.is_empty() && d.conformance_ok() && matches!(case.policy, Policy::Always { .. }) {
        let b = d.steps.len().saturating_sub(2); // the multi-block append before the final restart
        if let Some(st) = d.steps.get(b).filter(|s| matches!(s.op, Op::Append { .. })) {
            let writes: Vec<(usize, usize)> = {
                let fs = d.world.fs.borrow();
                (st.eff_start..st.eff_end).filter_map(|i| if let Eff::Write { data, .. } = &fs.trace[i].eff { Some((i, data.len())) } else { None }).collect()
            };
            if writes.len() >= 2 {
                // after the first write of the entry, inside a later one
                let (wi, wlen) = writes[1 + rng.usize_below(writes.len() - 1)];
                let byte = if wlen < 2 { None } else { match rng.below(4) { 0 => None, 1 => Some(rng.usize_below(7).min(wlen - 1).max(1)), 2 => Some(1 + rng.usize_below(wlen - 1)), _ => Some(wlen - 1) } };
                let image = crate::crash::os_image_at(&d, wi, byte);
                let cont = vec![
                    Op::Append { q: 1, pos: None, lens: vec![rng.below(60) as u32], uid: 900_001 },
                    Op::Append { q: 1, pos: None, lens: vec![(20_000 + rng.below(60_000)) as u32], uid: 900_003 },
                    Op::Append { q: 1, pos: None, lens: vec![rng.below(3000) as u32, 0, 17], uid: 900_005 },
                    Op::Restart { policy: None },
                ];
                let mut stats = crate::crash::CrashStats::default();
                let o = crate::crash::test_process_crash(&d, &case, b, &image, crate::crash::Cont::Explicit(&cont), &mut stats, None);
                rep.evaluations += 1;
                rep.count("fault_process_crash_torn_tail", 1);
                if let Some(f) = o.failures.iter().find(|f| f.prop == "C02") {
                    rep.found.push(Found {
                        prop: prop.to_string(), clause: format!("torn-tail-{}", f.clause), detail: f.detail.clone(), case: case.clone(),
                        fault: Fault::Crash { at: CrashPoint { op: b, eff_in_op: wi - st.eff_start, byte, powerloss: None }, second: None, cont },
                    });
                }
            }
        }
    }
    if index < 3 {
        rep.sample = Some(json!({"cell": format!("{cell:?}"), "aimed_exactly": aimed, "history": d.steps.iter().map(|s| format!("{} -> {:?}", s.op.short(), s.outcome)).collect::<Vec<_>>(), "verdict": if rep.found.is_empty() { "held" } else { "VIOLATION" }}));
    }
    rep
}
