//! Lock-step execution of a history against the real log and the reference model,
//! with every per-call oracle of the fault-free configuration.
use std::collections::{BTreeMap, VecDeque};
use std::ops::Bound;

use crate::case::Case;
use crate::model::{ErrKind, Model, Obs, Op, Outcome, Policy, Rec};
use crate::prng::{mix, Rng};
use crate::simfs::{is_wal_name, wal_number, Class, Eff, Image, FILE_BYTES};
use crate::world::{last_panic, World};

#[derive(Clone, Debug)]
pub struct Failure {
    pub prop: &'static str,
    pub clause: String,
    pub op_index: usize,
    pub detail: String,
}

#[derive(Clone, Debug)]
pub struct Step {
    pub op: Op,
    pub outcome: Outcome,
    pub expected: Outcome,
    pub eff_start: usize,
    pub eff_end: usize,
    /// for Restart: trace index where `open` began (after the clean drop's effects)
    pub open_start: usize,
    /// policy in force while the op ran
    pub policy: Policy,
}

#[derive(Clone, Debug, Default)]
pub struct Probes {
    pub rollover: u64,
    pub gc_deleted_file: u64,
    pub gc_wrote_positions: u64,
    pub open_gc: u64,
    pub entry_spans_files: u64,
    pub padding_written: u64,
    pub first_frame_empty: u64,
    pub queue_recreated: u64,
    pub future_truncate: u64,
    pub idempotent_retry: u64,
    pub rejected_calls: u64,
    pub ring_wrapped: u64,
    pub restarts: u64,
    pub range_probes: u64,
    pub partial_truncates: u64,
    pub all_empty_points: u64,
    pub max_files: u64,
    pub ondelay_fired: u64,
    pub ondelay_not_fired: u64,
    pub c06_evals: u64,
    pub c06_removed: u64,
    pub c06_kept_older: u64,
    pub c15_exact_calls: u64,
    pub c15_cumulative_points: u64,
    pub c13_checked: u64,
    pub c04_appends_after_files_gone: u64,
    pub c16_checks: u64,
    pub c17_foreign_checked: u64,
}

impl Probes {
    pub fn add(&mut self, o: &Probes) {
        macro_rules! acc { ($($f:ident),*) => { $( self.$f += o.$f; )* } }
        acc!(rollover, gc_deleted_file, gc_wrote_positions, open_gc, entry_spans_files, padding_written,
             first_frame_empty, queue_recreated, future_truncate, idempotent_retry, rejected_calls, ring_wrapped,
             restarts, range_probes, partial_truncates, all_empty_points, ondelay_fired, ondelay_not_fired,
             c06_evals, c06_removed, c06_kept_older, c15_exact_calls, c15_cumulative_points, c13_checked,
             c04_appends_after_files_gone, c16_checks, c17_foreign_checked);
        self.max_files = self.max_files.max(o.max_files);
    }
    pub fn to_json(&self) -> serde_json::Value {
        serde_json::json!({
            "rollover": self.rollover, "gc_deleted_file": self.gc_deleted_file, "gc_wrote_positions": self.gc_wrote_positions,
            "open_gc": self.open_gc, "entry_spans_files": self.entry_spans_files, "padding_written": self.padding_written,
            "first_frame_empty": self.first_frame_empty, "queue_recreated": self.queue_recreated,
            "future_truncate": self.future_truncate, "idempotent_retry": self.idempotent_retry,
            "rejected_calls": self.rejected_calls, "ring_wrapped": self.ring_wrapped, "restarts": self.restarts,
            "range_probes": self.range_probes, "partial_truncates": self.partial_truncates,
            "all_empty_points": self.all_empty_points, "max_files": self.max_files,
            "ondelay_fired": self.ondelay_fired, "ondelay_not_fired": self.ondelay_not_fired,
            "c06_evals": self.c06_evals, "c06_removed": self.c06_removed, "c06_kept_older": self.c06_kept_older,
            "c15_exact_calls": self.c15_exact_calls, "c15_cumulative_points": self.c15_cumulative_points,
            "c13_checked": self.c13_checked, "c04_appends_after_files_gone": self.c04_appends_after_files_gone,
            "c16_checks": self.c16_checks, "c17_foreign_checked": self.c17_foreign_checked,
        })
    }
}

pub struct Driver {
    pub names: Vec<String>,
    pub world: World,
    pub model: Model,
    /// models[i] = model before op i (models.len() == steps.len() + 1 after each step)
    pub models: Vec<Model>,
    pub steps: Vec<Step>,
    pub failures: Vec<Failure>,
    /// set when basic conformance broke: nothing after that point is meaningful
    pub stopped: bool,
    pub probes: Probes,
    pub probe_seed: u64,
    pub light: bool,
    /// C04 mode: a state/outcome divergence from the model does not stop the run; the model is
    /// re-based on what the log shows so that the model-independent position monitor keeps watching
    pub lenient: bool,
    /// with `lenient`: also keep going after a call returned an I/O error (C17: a foreign entry that occupies
    /// the next WAL name makes the roll-over fail; what the *following* calls touch is what matters)
    pub lenient_io: bool,
    /// C12 (live): next position of every queue as last observed (None: queue absent)
    seen_next: BTreeMap<String, u64>,
    /// keep the observation after every step (metamorphic engines)
    pub keep_obs: bool,
    pub obs_log: Vec<Option<Obs>>,
    // --- monitors ---
    /// C04: per (queue, incarnation) high-water mark
    pub hw: BTreeMap<(String, u32), u64>,
    /// write cursor by arithmetic: (file number, offset in file)
    pub cursor: Option<(u64, usize)>,
    /// C06: file number attributed to each retained record, parallel to the model's records
    pub rec_files: BTreeMap<String, VecDeque<u64>>,
    /// C06 after crash recovery: (queue, position, payload digest) -> oldest file any such record was attributed to
    pub attr_all: BTreeMap<(String, u64, u64), u64>,
    /// C15 cumulative accounting
    wal_pending: u64,
    wal_mark: usize,
    flushed: bool,
    mem_used_prev: usize,
    foreign: Image,
    pub digest: crate::prng::Digest,
}

impl Driver {
    pub fn new(case: &Case) -> Driver {
        let names = case.name_strings();
        let image = case.initial_image();
        let world = World::new(&image, names.clone(), case.policy, case.knobs.clone());
        Driver {
            names,
            world,
            model: Model::default(),
            models: vec![Model::default()],
            steps: Vec::new(),
            failures: Vec::new(),
            stopped: false,
            probes: Probes::default(),
            probe_seed: case.probe_seed,
            light: false,
            lenient: false,
            lenient_io: false,
            seen_next: BTreeMap::new(),
            keep_obs: false,
            obs_log: Vec::new(),
            hw: BTreeMap::new(),
            cursor: None,
            rec_files: BTreeMap::new(),
            attr_all: BTreeMap::new(),
            wal_pending: 0,
            wal_mark: 0,
            flushed: true,
            mem_used_prev: 0,
            foreign: image,
            digest: crate::prng::Digest::new(),
        }
    }

    /// Starts from an arbitrary image and model (continuations after recovery).
    pub fn resume(image: &Image, names: Vec<String>, policy: Policy, knobs: crate::model::Knobs, model: Model, probe_seed: u64) -> Driver {
        let world = World::new(image, names.clone(), policy, knobs);
        let foreign: Image = image.iter().filter(|(n, _)| !is_wal_name(n)).map(|(n, v)| (n.clone(), v.clone())).collect();
        Driver {
            names,
            world,
            models: vec![model.clone()],
            model,
            steps: Vec::new(),
            failures: Vec::new(),
            stopped: false,
            probes: Probes::default(),
            probe_seed,
            light: false,
            lenient: false,
            lenient_io: false,
            seen_next: BTreeMap::new(),
            keep_obs: false,
            obs_log: Vec::new(),
            hw: BTreeMap::new(),
            cursor: None,
            rec_files: BTreeMap::new(),
            attr_all: BTreeMap::new(),
            wal_pending: 0,
            wal_mark: 0,
            flushed: true,
            mem_used_prev: 0,
            foreign,
            digest: crate::prng::Digest::new(),
        }
    }

    /// Wraps an already opened world (after crash recovery) with the given model.
    pub fn adopt(world: World, model: Model, probe_seed: u64) -> Driver {
        let names = world.names.clone();
        let image = world.image();
        // everything that is not a regular file with a WAL name is foreign
        let foreign: Image = image.iter().filter(|(n, v)| !(is_wal_name(n) && matches!(v, crate::simfs::Node::File(_)))).map(|(n, v)| (n.clone(), v.clone())).collect();
        let cursor = world.fs.borrow().last_cursor.clone().and_then(|(name, pos)| wal_number(&name).map(|n| (n, pos as usize)));
        let wal_mark = world.trace_len();
        Driver {
            names,
            world,
            models: vec![model.clone()],
            model,
            steps: Vec::new(),
            failures: Vec::new(),
            stopped: false,
            probes: Probes::default(),
            probe_seed,
            light: false,
            lenient: false,
            lenient_io: false,
            seen_next: BTreeMap::new(),
            keep_obs: false,
            obs_log: Vec::new(),
            hw: BTreeMap::new(),
            cursor,
            rec_files: BTreeMap::new(),
            attr_all: BTreeMap::new(),
            wal_pending: 0,
            wal_mark,
            flushed: true,
            mem_used_prev: 0,
            foreign,
            digest: crate::prng::Digest::new(),
        }
    }

    fn fail(&mut self, prop: &'static str, clause: &str, detail: String) {
        let op_index = self.steps.len();
        self.failures.push(Failure { prop, clause: clause.to_string(), op_index, detail });
    }

    pub fn first_failure(&self, prop: &str) -> Option<&Failure> {
        self.failures.iter().find(|f| f.prop == prop)
    }

    pub fn conformance_ok(&self) -> bool {
        !self.failures.iter().any(|f| f.prop == "C05" || f.prop == "C01")
    }

    pub fn n_files(&self) -> usize {
        self.world.fs.borrow().st.wal_names().len()
    }

    pub fn run_all(&mut self, ops: &[Op]) {
        for op in ops {
            if self.stopped {
                break;
            }
            self.step(op.clone());
        }
    }

    /// Executes one op with every oracle; returns the real outcome.
    pub fn step(&mut self, op: Op) -> Outcome {
        let idx = self.steps.len();
        self.world.set_op(idx as u32);
        let eff_start = self.world.trace_len();
        let policy_before = self.world.policy;
        let cursor_before = self.cursor;
        let files_before = self.n_files();
        let model_before_nonempty_all_gone = self.c04_precondition(&op);
        let mem_before = if self.world.log.is_some() && !self.light { self.world.resource_usage().memory_used_bytes } else { 0 };

        let expected = self.model.apply(&op, &self.names);
        let outcome = self.world.exec(&op);
        let eff_end = self.world.trace_len();
        let open_start = match op {
            Op::Restart { .. } => self.world.fs.borrow().bases.last().map(|b| b.0).unwrap_or(eff_start),
            _ => eff_start,
        };
        let policy = if matches!(op, Op::Restart { .. }) { self.world.policy } else { policy_before };
        self.digest.u64(op.kind() as u64);
        self.digest.u64(eff_end as u64);

        // ---------- conformance (C05; C01 at restarts) ----------
        let conf_prop: &'static str = if matches!(op, Op::Restart { .. }) && idx > 0 { "C01" } else { "C05" };
        if outcome.logical() != expected {
            let detail = if matches!(outcome, Outcome::Err(ErrKind::Panic)) {
                format!("op {} panicked: {}", op.short(), last_panic())
            } else {
                format!("op {} returned {:?}, specification says {:?}", op.short(), outcome.logical(), expected)
            };
            self.fail(conf_prop, "outcome", detail);
            self.stopped = true;
        }
        let mut obs_opt: Option<Obs> = None;
        if !self.stopped {
            match self.world.observe() {
                Ok(obs) => {
                    if let Some(msg) = self.world.range_forms.take() {
                        self.fail(conf_prop, "range-forms-disagree", format!("after {}: {}", op.short(), msg));
                        self.stopped = true;
                    }
                    let want = self.model.to_obs();
                    if obs != want {
                        let d = obs.diff(&want);
                        self.fail(conf_prop, "state", format!("after {}: observed vs model: {}", op.short(), d));
                        self.stopped = true;
                    }
                    self.digest.u64(obs.digest());
                    obs_opt = Some(obs);
                }
                Err(msg) => {
                    self.fail(conf_prop, "accessor-panic", format!("read accessor panicked after {}: {}", op.short(), msg));
                    self.stopped = true;
                }
            }
        }
        if self.keep_obs {
            self.obs_log.push(obs_opt.clone());
        }
        self.steps.push(Step { op: op.clone(), outcome: outcome.clone(), expected: expected.clone(), eff_start, eff_end, open_start, policy });
        if self.stopped {
            // oracles that read only the effect trace do not depend on the model: evaluate them anyway
            let failures_before = self.failures.len();
            self.c13_no_trace(idx, eff_start, eff_end, open_start, &op, &outcome, &expected);
            self.c17_names(idx, eff_start, eff_end);
            let io_ok = self.lenient_io && matches!(outcome, Outcome::Err(ErrKind::Io)) && !matches!(op, Op::Restart { .. });
            if self.lenient && (io_ok || !matches!(outcome, Outcome::Err(ErrKind::Panic) | Outcome::Err(ErrKind::Hang) | Outcome::Err(ErrKind::Io) | Outcome::Err(ErrKind::Corruption))) && self.world.log.is_some() {
                // keep the position monitor running on what the log actually does
                self.c04_monitor(idx, &op, &outcome, model_before_nonempty_all_gone);
                if let Ok(obs) = self.world.observe() {
                    self.c12_live_batch(&op, &outcome, &obs);
                    // a queue that was never deleted but is gone after a restart has lost its positions
                    if matches!(op, Op::Restart { .. }) {
                        let lost: Vec<(String, u64)> = self.model.queues.iter().filter(|(n, _)| !obs.queues.contains_key(*n)).filter_map(|(n, mq)| self.hw.get(&(n.clone(), mq.incarnation)).map(|h| (n.clone(), *h))).collect();
                        if let Some((n, h)) = lost.first() {
                            self.fail("C04", "queue-with-positions-vanished", format!("after {} a queue (name {} B) that had handed out positions up to {} and was never deleted no longer exists: its next append would start again from 0", op.short(), n.len(), h));
                        }
                        // ... and one that is still there may not have moved backwards
                        let regressed: Vec<(String, u64, u64)> = self.model.queues.iter().filter_map(|(n, mq)| {
                            let h = *self.hw.get(&(n.clone(), mq.incarnation))?;
                            let next = obs.queues.get(n)?.last_position.map(|p| p.saturating_add(1)).unwrap_or(0);
                            if next < h.saturating_add(1) { Some((n.clone(), h, next)) } else { None }
                        }).collect();
                        if let Some((n, h, next)) = regressed.first() {
                            self.fail("C04", "next-regressed-after-restart", format!("after {} a queue (name {} B) that had handed out positions up to {} has next position {}: positions would be handed out again", op.short(), n.len(), h, next));
                        }
                    }
                    self.model.rebase(&obs);
                    self.stopped = false;
                    self.cursor = None;
                }
            }
            for f in &mut self.failures[failures_before..] {
                f.op_index = idx;
            }
            self.models.push(self.model.clone());
            // undo the step index bump for failure attribution
            if let Some(f) = self.failures.get_mut(failures_before.saturating_sub(1)) {
                f.op_index = idx;
            }
            return outcome;
        }
        let step_no = self.steps.len();
        // failures below are attributed to `idx`; temporarily pop the step count view
        let failures_before = self.failures.len();

        if let Some(obs) = &obs_opt {
            let obs = obs.clone();
            self.c12_live_batch(&op, &outcome, &obs);
        }
        if !self.light {
            self.range_probes(idx, &obs_opt);
        }
        self.trace_probes(idx, eff_start, eff_end, &op, &outcome);
        self.c13_no_trace(idx, eff_start, eff_end, open_start, &op, &outcome, &expected);
        self.c15_wal_bytes(idx, eff_start, eff_end, open_start, &op, &outcome, policy, cursor_before);
        self.c04_monitor(idx, &op, &outcome, model_before_nonempty_all_gone);
        self.c06_files(idx, &op, &outcome, cursor_before, files_before);
        if !self.light {
            self.c16_memory(idx, &op, &outcome, mem_before);
        }
        self.c17_names(idx, eff_start, eff_end);
        for f in &mut self.failures[failures_before..] {
            f.op_index = idx;
        }
        debug_assert_eq!(step_no, self.steps.len());
        self.models.push(self.model.clone());
        outcome
    }

    // ---------------------------------------------------------------- C12 (live): a batch is applied whole or not at all
    fn c12_live_batch(&mut self, op: &Op, outcome: &Outcome, obs: &Obs) {
        if let (Op::Append { q, pos, lens, .. }, Outcome::Appended { .. }) = (op, outcome) {
            if lens.len() >= 2 {
                let name = self.names[*q].clone();
                if let (Some(prev_next), Some(oq)) = (self.seen_next.get(&name).copied(), obs.queues.get(&name)) {
                    let first = pos.unwrap_or(prev_next).max(prev_next);
                    let added = oq.recs.iter().filter(|r| r.pos >= first).count();
                    if added != 0 && added != lens.len() {
                        self.fail("C12", "batch-partially-applied", format!("{} appended {} records in one call; {} of them are in the queue afterwards", op.short(), lens.len(), added));
                    }
                }
            }
        }
        // and no restart may expose a batch with a hole or a missing tail
        if self.keep_obs && matches!(op, Op::Restart { .. }) && self.steps.len() > 1 {
            if let Some(msg) = crate::crash::batch_atomicity(self, self.steps.len() - 1, obs) {
                self.fail("C12", "batch-torn-after-clean-restart", format!("after {}: {msg}", op.short()));
            }
        }
        self.seen_next = obs.queues.iter().map(|(n, q)| (n.clone(), q.last_position.map(|p| p.saturating_add(1)).unwrap_or(0))).collect();
    }

    // ---------------------------------------------------------------- C05 range probes
    fn range_probes(&mut self, idx: usize, obs: &Option<Obs>) {
        let Some(obs) = obs else { return };
        let mut rng = Rng::new(mix(&[self.probe_seed, idx as u64, 0x5052_4F42]));
        // a non-existing queue must be reported missing by every accessor
        let ghost = format!("no-such-queue-{}", rng.below(1000));
        if !self.model.queues.contains_key(&ghost) {
            let r = self.world.with_log(|log| {
                (log.queue_exists(&ghost), log.range(&ghost, ..).is_err(), log.last_position(&ghost).is_err(), log.last_record(&ghost).is_err())
            });
            match r {
                Ok((false, true, true, true)) => {}
                other => self.fail("C05", "missing-queue-accessors", format!("accessors on a non-existing queue: {other:?}")),
            }
        }
        let qnames: Vec<String> = obs.queues.keys().cloned().collect();
        if qnames.is_empty() {
            return;
        }
        for _ in 0..2 {
            let qn = rng.pick(&qnames).clone();
            let recs: &Vec<Rec> = &obs.queues[&qn].recs;
            let mut cands: Vec<u64> = vec![0, u64::MAX, 1];
            if let (Some(f), Some(l)) = (recs.first(), recs.last()) {
                cands.extend([f.pos.saturating_sub(1), f.pos, f.pos.saturating_add(1), l.pos.saturating_sub(1), l.pos, l.pos.saturating_add(1), f.pos / 2 + l.pos / 2]);
            }
            let a = *rng.pick(&cands);
            let b = *rng.pick(&cands);
            let lo = match rng.below(3) { 0 => Bound::Included(a), 1 => Bound::Excluded(a), _ => Bound::Unbounded };
            let hi = match rng.below(3) { 0 => Bound::Included(b), 1 => Bound::Excluded(b), _ => Bound::Unbounded };
            let want: Vec<Rec> = recs.iter().filter(|r| bound_contains(&lo, &hi, r.pos)).copied().collect();
            let got = self.world.with_log(|log| {
                let mut wrapped = false;
                let v: Vec<Rec> = log
                    .range(&qn, (lo, hi))
                    .unwrap()
                    .map(|r| {
                        if matches!(r.payload, std::borrow::Cow::Owned(_)) {
                            wrapped = true;
                        }
                        Rec::of(r.position, &r.payload)
                    })
                    .collect();
                (v, wrapped)
            });
            self.probes.range_probes += 1;
            match got {
                Ok((v, wrapped)) => {
                    if wrapped {
                        self.probes.ring_wrapped += 1;
                    }
                    if v != want {
                        self.fail("C05", "range-bounds", format!("range({:?},{:?}) returned {} records (first {:?}), expected {} (first {:?})",
                            lo, hi, v.len(), v.first().map(|r| r.pos), want.len(), want.first().map(|r| r.pos)));
                    }
                }
                Err(msg) => self.fail("C05", "range-panic", format!("range({lo:?},{hi:?}) panicked: {msg}")),
            }
        }
    }

    // ---------------------------------------------------------------- probes from the trace
    fn trace_probes(&mut self, _idx: usize, s: usize, e: usize, op: &Op, outcome: &Outcome) {
        let fs = self.world.fs.borrow();
        let mut wrote_files: Vec<&str> = Vec::new();
        for eff in &fs.trace[s..e] {
            match &eff.eff {
                Eff::Create { .. } => self.probes.rollover += 1,
                Eff::Unlink { .. } => {
                    self.probes.gc_deleted_file += 1;
                    if matches!(op, Op::Restart { .. }) {
                        self.probes.open_gc += 1;
                    }
                }
                Eff::Write { name, .. } => {
                    if !wrote_files.contains(&name.as_str()) {
                        wrote_files.push(name);
                    }
                }
                _ => {}
            }
        }
        if wrote_files.len() >= 2 && matches!(op, Op::Append { .. }) {
            self.probes.entry_spans_files += 1;
        }
        drop(fs);
        self.probes.max_files = self.probes.max_files.max(self.n_files() as u64);
        match (op, outcome) {
            (Op::Restart { .. }, _) => self.probes.restarts += 1,
            (Op::Append { pos: Some(_), lens, .. }, Outcome::Appended { last: None, .. }) if !lens.is_empty() => self.probes.idempotent_retry += 1,
            (_, Outcome::Err(_)) => self.probes.rejected_calls += 1,
            _ => {}
        }
        if self.model.queues.values().all(|q| q.recs.is_empty()) && !self.model.queues.is_empty() {
            self.probes.all_empty_points += 1;
        }
    }

    // ---------------------------------------------------------------- C13
    fn c13_no_trace(&mut self, _idx: usize, s: usize, e: usize, open_start: usize, op: &Op, outcome: &Outcome, expected: &Outcome) {
        let _ = open_start;
        let is_noop = match (op, expected) {
            (Op::Create { .. } | Op::Delete { .. } | Op::Append { .. } | Op::Truncate { .. }, Outcome::Err(_)) => true,
            (Op::Append { .. }, Outcome::Appended { last: None, .. }) => true,
            _ => false,
        };
        if !is_noop {
            return;
        }
        self.probes.c13_checked += 1;
        if outcome.wal() != 0 {
            self.fail("C13", "wal-bytes-nonzero", format!("{} is a no-op/rejected call but reported wal_bytes_written={}", op.short(), outcome.wal()));
        }
        let fs = self.world.fs.borrow();
        let mutating: Vec<String> = fs.trace[s..e].iter().filter(|x| x.eff.is_mutating()).map(|x| x.eff.short()).collect();
        drop(fs);
        if !mutating.is_empty() {
            self.fail("C13", "mutating-effect", format!("{} is a no-op/rejected call but performed {:?}", op.short(), mutating));
        }
    }

    // ---------------------------------------------------------------- C15 + cursor arithmetic
    #[allow(clippy::too_many_arguments)]
    fn c15_wal_bytes(&mut self, _idx: usize, s: usize, e: usize, open_start: usize, op: &Op, outcome: &Outcome, policy: Policy, cursor_before: Option<(u64, usize)>) {
        let wal_written = |fs: &crate::simfs::SimFs, a: usize, b: usize| -> u64 {
            fs.trace[a..b]
                .iter()
                .map(|x| match &x.eff {
                    Eff::Write { name, data, .. } if is_wal_name(name) => data.len() as u64,
                    _ => 0,
                })
                .sum()
        };
        if let Op::Restart { .. } = op {
            // the clean drop flushed whatever was buffered
            let (dropped, last_cursor) = {
                let fs = self.world.fs.borrow();
                (wal_written(&fs, self.wal_mark.min(open_start), open_start), fs.last_cursor.clone())
            };
            if self.steps.len() > 1 && dropped != self.wal_pending {
                self.fail("C15", "cumulative-at-drop", format!("calls reported {} WAL bytes since the last flush point, {} were written by the time the log was dropped", self.wal_pending, dropped));
            }
            self.wal_pending = 0;
            self.wal_mark = e;
            self.flushed = true;
            self.cursor = last_cursor.and_then(|(name, pos)| wal_number(&name).map(|n| (n, pos as usize)));
            return;
        }
        if outcome.is_err() {
            return;
        }
        let w = outcome.wal();
        // arithmetic cursor
        if let Some((f, off)) = cursor_before {
            let total = off as u64 + w;
            if total <= FILE_BYTES as u64 {
                self.cursor = Some((f, total as usize));
            } else {
                let k = (total - 1) / FILE_BYTES as u64;
                self.cursor = Some((f + k, (total - k * FILE_BYTES as u64) as usize));
            }
        }
        let flushed_before = self.flushed;
        let flushed_after = match op {
            Op::Create { .. } | Op::Delete { .. } | Op::Persist { .. } => true,
            Op::Append { .. } | Op::Truncate { .. } => {
                if policy.is_always() {
                    true
                } else if w == 0 {
                    self.flushed
                } else {
                    false
                }
            }
            _ => self.flushed,
        };
        self.wal_pending += w;
        let fs = self.world.fs.borrow();
        let written_in_call = wal_written(&fs, s, e);
        let written_since_mark = wal_written(&fs, self.wal_mark, e);
        let last_cursor = fs.last_cursor.clone();
        let saw_sync = fs.trace[s..e].iter().any(|x| matches!(x.eff, Eff::SyncData { .. }));
        drop(fs);
        if let Policy::OnDelay { .. } = policy {
            if matches!(op, Op::Append { .. } | Op::Truncate { .. }) && w > 0 {
                // statistic only: did the delay policy flush in this call?
                if written_in_call > 0 || saw_sync {
                    self.probes.ondelay_fired += 1;
                } else {
                    self.probes.ondelay_not_fired += 1;
                }
            }
        }
        if written_since_mark > self.wal_pending {
            self.fail("C15", "more-written-than-reported", format!("{} bytes reached WAL files since the last flush point but calls reported only {}", written_since_mark, self.wal_pending));
        }
        if flushed_after {
            if flushed_before {
                self.probes.c15_exact_calls += 1;
                if written_in_call != w {
                    self.fail("C15", "per-call", format!("{} reported wal_bytes_written={} but wrote {} bytes to WAL files", op.short(), w, written_in_call));
                }
            } else {
                self.probes.c15_cumulative_points += 1;
                if written_since_mark != self.wal_pending {
                    self.fail("C15", "cumulative", format!("calls since the last flush point reported {} bytes, {} were written", self.wal_pending, written_since_mark));
                }
            }
            // the running sum must sit exactly on the true write cursor
            if let (Some((f, off)), Some((name, pos))) = (self.cursor, last_cursor) {
                if written_since_mark > 0 && (wal_number(&name) != Some(f) || pos as usize != off) {
                    self.fail("C15", "cursor", format!("running sum of wal_bytes_written puts the cursor at file {} offset {}, the file system has it at {} offset {}", f, off, name, pos));
                }
            }
            self.wal_pending = 0;
            self.wal_mark = e;
        }
        self.flushed = flushed_after;
        if w > 0 {
            if let (Some((_, off)), Op::Append { q, lens, .. }) = (cursor_before, op) {
                let entry_len = crate::walparse::append_entry_len(self.names[*q].len(), lens);
                let (_, plain) = crate::walparse::advance(off % FILE_BYTES, entry_len);
                let _ = plain;
                if (off % crate::simfs::BLOCK) > crate::simfs::BLOCK - 7 {
                    self.probes.padding_written += 1;
                }
                if crate::simfs::BLOCK - (off % crate::simfs::BLOCK) == 7 {
                    self.probes.first_frame_empty += 1;
                }
            }
        }
    }

    // ---------------------------------------------------------------- C04
    fn c04_precondition(&self, op: &Op) -> bool {
        // "an append to a queue all of whose earlier entries lived in files that no longer exist"
        if let Op::Append { q, .. } = op {
            if let Some(mq) = self.model.queues.get(&self.names[*q]) {
                if mq.recs.is_empty() && mq.next > 0 {
                    return true;
                }
            }
        }
        false
    }

    fn c04_monitor(&mut self, _idx: usize, op: &Op, outcome: &Outcome, idle_empty: bool) {
        match (op, outcome) {
            (Op::Append { q, lens, .. }, Outcome::Appended { last: Some(last), .. }) => {
                let name = self.names[*q].clone();
                let Some(mq) = self.model.queues.get(&name) else { return };
                let key = (name.clone(), mq.incarnation);
                let n = lens.len() as u64;
                let first = last.saturating_add(1) - n.min(last.saturating_add(1));
                if let Some(&h) = self.hw.get(&key) {
                    if first <= h {
                        self.fail("C04", "position-reused", format!("append on {} was assigned positions {}..={} but position {} had already been appended or truncated-to", op.short(), first, last, h));
                    }
                }
                if idle_empty {
                    self.probes.c04_appends_after_files_gone += 1;
                }
                self.hw.insert(key, *last);
            }
            (Op::Truncate { q, upto }, Outcome::Truncated { .. }) => {
                let name = self.names[*q].clone();
                if let Some(mq) = self.model.queues.get(&name) {
                    let key = (name, mq.incarnation);
                    let h = self.hw.get(&key).copied();
                    self.hw.insert(key, h.map(|h| h.max(*upto)).unwrap_or(*upto));
                    if mq.recs.is_empty() && Some(mq.next) == upto.checked_add(1) {
                        self.probes.future_truncate += 1;
                    }
                }
            }
            (Op::Create { q }, Outcome::Created { .. }) => {
                if let Some(mq) = self.model.queues.get(&self.names[*q]) {
                    if mq.incarnation > 1 && self.models.last().map(|m| m.next_incarnation).unwrap_or(0) >= 1 {
                        // recreated if a queue with this name existed before
                        if self.hw.keys().any(|(n, inc)| n == &self.names[*q] && *inc < mq.incarnation) {
                            self.probes.queue_recreated += 1;
                        }
                    }
                }
            }
            _ => {}
        }
        // last_position may never fall below the high-water mark of a live incarnation
        for (name, mq) in &self.model.queues {
            if let Some(&h) = self.hw.get(&(name.clone(), mq.incarnation)) {
                if mq.next <= h {
                    // the model itself would be wrong here; conformance reports it
                }
            }
        }
    }

    // ---------------------------------------------------------------- C06
    fn c06_files(&mut self, _idx: usize, op: &Op, outcome: &Outcome, cursor_before: Option<(u64, usize)>, files_before: usize) {
        // maintain record -> file attribution (file holding the cursor when the append began)
        match (op, outcome) {
            (Op::Append { q, lens, .. }, Outcome::Appended { last: Some(_), .. }) => {
                if let Some((f, _)) = cursor_before {
                    let e = self.rec_files.entry(self.names[*q].clone()).or_default();
                    for _ in 0..lens.len() {
                        e.push_back(f);
                    }
                    if let Some(mq) = self.model.queues.get(&self.names[*q]) {
                        let n = lens.len().min(mq.recs.len());
                        for r in &mq.recs[mq.recs.len() - n..] {
                            let slot = self.attr_all.entry((self.names[*q].clone(), r.pos, r.hash)).or_insert(f);
                            *slot = (*slot).min(f);
                        }
                    }
                }
            }
            (Op::Truncate { q, .. }, Outcome::Truncated { evicted, .. }) => {
                if let Some(e) = self.rec_files.get_mut(&self.names[*q]) {
                    for _ in 0..*evicted {
                        e.pop_front();
                    }
                }
                if *evicted > 0 && self.model.queues.get(&self.names[*q]).map(|m| !m.recs.is_empty()).unwrap_or(false) {
                    self.probes.partial_truncates += 1;
                }
            }
            (Op::Delete { q }, Outcome::Deleted { .. }) => {
                self.rec_files.remove(&self.names[*q]);
            }
            _ => {}
        }
        let eval = matches!(
            (op, outcome),
            (Op::Truncate { .. }, Outcome::Truncated { .. }) | (Op::Delete { .. }, Outcome::Deleted { .. }) | (Op::Restart { .. }, Outcome::Opened)
        );
        if !eval {
            return;
        }
        let Some((cur_file, _)) = self.cursor else { return };
        if self.rec_files.values().map(|v| v.len()).sum::<usize>() as u64 != self.model.retained_records() {
            return; // attribution unknown for some record (continuation after recovery): no verdict
        }
        self.probes.c06_evals += 1;
        let listing: Vec<u64> = self.world.fs.borrow().st.wal_names().iter().filter_map(|n| wal_number(n)).collect();
        // the file being written when the call began (for open: where the previous incarnation stopped,
        // which is where recovery's own GC records start)
        let w_before = cursor_before.map(|c| c.0).unwrap_or(cur_file);
        let oldest_rec = self.rec_files.values().filter_map(|v| v.front().copied()).min();
        let keep_from = oldest_rec.map(|o| o.min(w_before)).unwrap_or(w_before);
        if let Some(&first) = listing.first() {
            if first < keep_from {
                self.fail("C06", "file-not-reclaimed", format!("after {} the directory still holds WAL file {} although the oldest retained record lives in file {:?} and the call began in file {}; listing {:?}", op.short(), first, oldest_rec, w_before, listing));
            }
        }
        let need_from = oldest_rec.unwrap_or(cur_file).min(cur_file);
        for f in need_from..=cur_file {
            if !listing.contains(&f) {
                self.fail("C06", "needed-file-missing", format!("after {} WAL file {} is gone although retained data lives in files {}..={}; listing {:?}", op.short(), f, need_from, cur_file, listing));
                break;
            }
        }
        if listing.windows(2).any(|w| w[1] != w[0] + 1) || listing.last() != Some(&cur_file) {
            self.fail("C06", "not-contiguous", format!("after {} the listing {:?} is not a contiguous run ending at the current file {}", op.short(), listing, cur_file));
        }
        let ru = self.world.resource_usage();
        if ru.disk_used_bytes != listing.len() * FILE_BYTES {
            self.fail("C06", "disk-used", format!("disk_used_bytes={} but {} WAL files of {} bytes exist", ru.disk_used_bytes, listing.len(), FILE_BYTES));
        }
        if listing.len() < files_before {
            self.probes.c06_removed += 1;
        }
        if oldest_rec.map(|o| o < w_before).unwrap_or(false) {
            self.probes.c06_kept_older += 1;
        }
    }

    // ---------------------------------------------------------------- C16
    fn c16_memory(&mut self, _idx: usize, op: &Op, outcome: &Outcome, mem_before: usize) {
        if self.world.log.is_none() {
            return;
        }
        let ru = match self.world.try_resource_usage() {
            Ok(ru) => ru,
            Err(msg) => {
                self.fail("C16", "accessor-panic", format!("resource_usage() panicked after {}: {}", op.short(), msg));
                self.fail("C05", "accessor-panic", format!("resource_usage() panicked after {}: {}", op.short(), msg));
                return;
            }
        };
        self.probes.c16_checks += 1;
        let n = self.model.name_bytes() as usize;
        let b = self.model.retained_payload_bytes() as usize;
        let r = self.model.retained_records() as usize;
        if ru.memory_used_bytes < n + b || ru.memory_used_bytes > n + b + 64 * r {
            self.fail("C16", "used-bounds", format!("after {}: memory_used_bytes={} outside [{}, {}] (names {} + payload {} + 64 x {} records)", op.short(), ru.memory_used_bytes, n + b, n + b + 64 * r, n, b, r));
        }
        if ru.memory_used_bytes > ru.memory_allocated_bytes {
            self.fail("C16", "used-gt-allocated", format!("after {}: used {} > allocated {}", op.short(), ru.memory_used_bytes, ru.memory_allocated_bytes));
        }
        if r == 0 && ru.memory_used_bytes != n {
            self.fail("C16", "baseline", format!("after {}: all queues empty but memory_used_bytes={} != names-only baseline {}", op.short(), ru.memory_used_bytes, n));
        }
        if let (Op::Truncate { .. }, Outcome::Truncated { evicted, .. }) = (op, outcome) {
            let before = self.models.last().unwrap();
            let evicted_bytes = (before.retained_payload_bytes() - self.model.retained_payload_bytes()) as usize;
            let drop = mem_before.saturating_sub(ru.memory_used_bytes);
            if mem_before < ru.memory_used_bytes || drop < evicted_bytes || drop > evicted_bytes + 64 * evicted {
                self.fail("C16", "truncate-release", format!("{} evicted {} records / {} payload bytes but memory_used_bytes went {} -> {}", op.short(), evicted, evicted_bytes, mem_before, ru.memory_used_bytes));
            }
        }
        self.mem_used_prev = ru.memory_used_bytes;
    }

    // ---------------------------------------------------------------- C17
    fn c17_names(&mut self, _idx: usize, s: usize, e: usize) {
        let mut bad: Option<String> = None;
        {
            let fs = self.world.fs.borrow();
            for eff in &fs.trace[s..e] {
                let class = eff.eff.class();
                // a create_new that fails because the name is taken neither reads nor modifies the entry holding it
                if matches!(&eff.eff, Eff::Fail { class: Class::Create, injected: false, .. }) {
                    continue;
                }
                if matches!(class, Class::Open | Class::Read | Class::Create | Class::SetLen | Class::Write | Class::SyncData | Class::Unlink | Class::Seek | Class::Rename) {
                    if let Some(t) = eff.eff.target() {
                        let foreign_node = self.foreign.get(t);
                        if !is_wal_name(t) || foreign_node.is_some() {
                            bad = Some(eff.eff.short());
                            break;
                        }
                    }
                }
            }
            if bad.is_none() && !self.foreign.is_empty() {
                let img = fs.st.to_image();
                for (name, node) in &self.foreign {
                    if img.get(name) != Some(node) {
                        bad = Some(format!("foreign entry {name:?} was modified or removed"));
                        break;
                    }
                }
            }
        }
        if !self.foreign.is_empty() {
            self.probes.c17_foreign_checked += 1;
        }
        if let Some(b) = bad {
            self.fail("C17", "foreign-touched", b);
        }
    }
}

pub fn bound_contains(lo: &Bound<u64>, hi: &Bound<u64>, x: u64) -> bool {
    (match lo {
        Bound::Included(a) => x >= *a,
        Bound::Excluded(a) => x > *a,
        Bound::Unbounded => true,
    }) && (match hi {
        Bound::Included(b) => x <= *b,
        Bound::Excluded(b) => x < *b,
        Bound::Unbounded => true,
    })
}
