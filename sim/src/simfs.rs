//! Simulated file system behind `mrecordlog::verif::VerifFs`.
//!
//! Every call appends exactly one `Effect` to the trace (failed calls included), so
//! a trace index is also a "file-system call number". Mutating effects carry all
//! the data needed to rebuild the disk image at any prefix (see crash.rs).
use std::cell::RefCell;
use std::collections::BTreeMap;
use std::ffi::OsString;
use std::io::{self, SeekFrom};
use std::path::Path;
use std::rc::Rc;

use mrecordlog::verif::{EntryKind, OpenFlags, VerifFs};

use crate::prng::Rng;

pub const DIR: &str = "/simwal";
pub const BLOCK: usize = 32768;
pub const BLOCKS_PER_FILE: usize = 4;
pub const FILE_BYTES: usize = BLOCK * BLOCKS_PER_FILE;
pub const NONUTF8_PREFIX: &str = "~nonutf8~";

#[derive(Clone, Debug, PartialEq)]
pub enum Node {
    File(Rc<Vec<u8>>),
    Dir,
    Symlink,
}

/// Flat disk image: name -> node.
pub type Image = BTreeMap<String, Node>;

#[derive(Clone, Debug, PartialEq)]
pub enum DNode {
    File(usize),
    Dir,
    Symlink,
}

/// Directory + inode table (what the OS sees).
#[derive(Clone, Debug, Default)]
pub struct FsState {
    pub dir: BTreeMap<String, DNode>,
    pub inodes: Vec<Rc<Vec<u8>>>,
}

impl FsState {
    pub fn from_image(image: &Image) -> FsState {
        let mut st = FsState::default();
        for (name, node) in image {
            let dnode = match node {
                Node::File(data) => {
                    st.inodes.push(data.clone());
                    DNode::File(st.inodes.len() - 1)
                }
                Node::Dir => DNode::Dir,
                Node::Symlink => DNode::Symlink,
            };
            st.dir.insert(name.clone(), dnode);
        }
        st
    }

    pub fn to_image(&self) -> Image {
        self.dir
            .iter()
            .map(|(name, dnode)| {
                let node = match dnode {
                    DNode::File(ino) => Node::File(self.inodes[*ino].clone()),
                    DNode::Dir => Node::Dir,
                    DNode::Symlink => Node::Symlink,
                };
                (name.clone(), node)
            })
            .collect()
    }

    /// Applies a mutating effect (no-op for the others).
    pub fn apply(&mut self, eff: &Eff) {
        match eff {
            Eff::Create { name, ino } => {
                assert_eq!(*ino, self.inodes.len(), "inode numbering diverged");
                self.inodes.push(Rc::new(Vec::new()));
                self.dir.insert(name.clone(), DNode::File(*ino));
            }
            Eff::SetLen { ino, len, .. } => {
                Rc::make_mut(&mut self.inodes[*ino]).resize(*len as usize, 0);
            }
            Eff::Write { ino, off, data, .. } => self.write_at(*ino, *off as usize, data),
            Eff::Unlink { name, .. } => {
                self.dir.remove(name);
            }
            Eff::Rename { from, to } => {
                if let Some(node) = self.dir.remove(from) {
                    self.dir.insert(to.clone(), node);
                }
            }
            _ => {}
        }
    }

    pub fn write_at(&mut self, ino: usize, off: usize, data: &[u8]) {
        if data.is_empty() {
            return;
        }
        let file = Rc::make_mut(&mut self.inodes[ino]);
        if file.len() < off + data.len() {
            file.resize(off + data.len(), 0);
        }
        file[off..off + data.len()].copy_from_slice(data);
    }

    pub fn wal_names(&self) -> Vec<String> {
        self.dir
            .iter()
            .filter(|(name, node)| is_wal_name(name) && matches!(node, DNode::File(_)))
            .map(|(name, _)| name.clone())
            .collect()
    }
}

pub fn is_wal_name(name: &str) -> bool {
    name.len() == 24 && name.starts_with("wal-") && name.as_bytes()[4..].iter().all(u8::is_ascii_digit)
}

pub fn wal_name(n: u64) -> String {
    format!("wal-{:020}", n)
}

pub fn wal_number(name: &str) -> Option<u64> {
    if is_wal_name(name) {
        name[4..].parse().ok()
    } else {
        None
    }
}

#[derive(Clone, Copy, Debug, PartialEq, Eq, PartialOrd, Ord, Hash)]
pub enum Class {
    ReadDir,
    Stat,
    Open,
    OpenDir,
    Create,
    SetLen,
    Seek,
    Read,
    Write,
    SyncData,
    SyncDir,
    Unlink,
    Rename,
}

#[derive(Clone, Debug)]
pub enum Eff {
    ReadDir,
    Stat { name: String },
    OpenDir,
    Open { name: String, ino: usize },
    Create { name: String, ino: usize },
    SetLen { name: String, ino: usize, len: u64 },
    Seek { name: String, ino: usize, pos: u64 },
    Read { name: String, ino: usize, off: u64, len: usize },
    Write { name: String, ino: usize, off: u64, data: Vec<u8> },
    SyncData { name: String, ino: usize },
    SyncDir,
    Unlink { name: String, ino: Option<usize> },
    Rename { from: String, to: String },
    /// A call that returned an error (natural or injected); changes nothing.
    Fail { class: Class, target: String, errno: i32, injected: bool },
}

impl Eff {
    pub fn class(&self) -> Class {
        match self {
            Eff::ReadDir => Class::ReadDir,
            Eff::Stat { .. } => Class::Stat,
            Eff::OpenDir => Class::OpenDir,
            Eff::Open { .. } => Class::Open,
            Eff::Create { .. } => Class::Create,
            Eff::SetLen { .. } => Class::SetLen,
            Eff::Seek { .. } => Class::Seek,
            Eff::Read { .. } => Class::Read,
            Eff::Write { .. } => Class::Write,
            Eff::SyncData { .. } => Class::SyncData,
            Eff::SyncDir => Class::SyncDir,
            Eff::Unlink { .. } => Class::Unlink,
            Eff::Rename { .. } => Class::Rename,
            Eff::Fail { class, .. } => *class,
        }
    }

    pub fn is_mutating(&self) -> bool {
        matches!(
            self,
            Eff::Create { .. } | Eff::SetLen { .. } | Eff::Write { .. } | Eff::Unlink { .. } | Eff::Rename { .. }
        )
    }

    /// Name of the directory entry the effect touches, if any.
    pub fn target(&self) -> Option<&str> {
        match self {
            Eff::Stat { name }
            | Eff::Open { name, .. }
            | Eff::Create { name, .. }
            | Eff::SetLen { name, .. }
            | Eff::Read { name, .. }
            | Eff::Write { name, .. }
            | Eff::SyncData { name, .. }
            | Eff::Unlink { name, .. } => Some(name),
            Eff::Rename { from, .. } => Some(from),
            Eff::Fail { target, .. } => Some(target),
            _ => None,
        }
    }

    pub fn short(&self) -> String {
        match self {
            Eff::ReadDir => "readdir".into(),
            Eff::Stat { name } => format!("stat({name})"),
            Eff::OpenDir => "opendir".into(),
            Eff::Open { name, .. } => format!("open({name})"),
            Eff::Create { name, .. } => format!("create({name})"),
            Eff::SetLen { name, len, .. } => format!("set_len({name},{len})"),
            Eff::Seek { name, pos, .. } => format!("seek({name},{pos})"),
            Eff::Read { name, off, len, .. } => format!("read({name},{off},{len})"),
            Eff::Write { name, off, data, .. } => format!("write({name},{off},{})", data.len()),
            Eff::SyncData { name, .. } => format!("fsync({name})"),
            Eff::SyncDir => "fsync(dir)".into(),
            Eff::Unlink { name, .. } => format!("unlink({name})"),
            Eff::Rename { from, to } => format!("rename({from},{to})"),
            Eff::Fail { class, target, errno, injected } => {
                format!("FAIL {class:?}({target}) errno={errno} injected={injected}")
            }
        }
    }
}

#[derive(Clone, Debug)]
pub struct Effect {
    /// Index of the API call (history op) in flight.
    pub op: u32,
    pub eff: Eff,
}

/// An injected I/O error.
#[derive(Clone, Debug)]
pub struct IoFault {
    /// Trace index (= fs call number) at which to fail.
    pub at: usize,
    pub errno: i32,
    /// Every later call of the same class on the same target fails too.
    pub persistent: bool,
    /// For Read: bytes delivered by a short read before the error is returned by the next read.
    pub consumed: usize,
}

#[derive(Clone, Debug, Default)]
pub struct Buggify {
    /// Probabilities in 1/1000.
    pub short_write: u32,
    pub short_read: u32,
    pub eintr: u32,
}

#[derive(Clone, Debug, Default)]
pub struct Fired {
    pub short_write: u64,
    pub short_read: u64,
    pub eintr: u64,
    pub ioerr: u64,
    pub ioerr_sticky: u64,
}

struct Handle {
    ino: Option<usize>,
    pos: u64,
    name: String,
    writable: bool,
    readable: bool,
    append: bool,
}

pub struct SimFs {
    pub st: FsState,
    handles: BTreeMap<u64, Handle>,
    next_handle: u64,
    pub trace: Vec<Effect>,
    pub cur_op: u32,
    /// fs calls allowed before the simulator declares a hang (panics with `BUDGET_PANIC`).
    pub budget: usize,
    pub budget_base: usize,
    pub faults: Vec<IoFault>,
    sticky: Vec<(Class, String, i32)>,
    pending_read_err: Option<(u64, i32)>,
    pub bug: Buggify,
    bug_rng: Rng,
    eintr_streak: u32,
    pub fired: Fired,
    pub dir_perm_seed: u64,
    /// (trace index at which the incarnation's `open` began, OS state at that moment).
    pub bases: Vec<(usize, FsState)>,
    /// Position of the handle that last wrote/seeked (write cursor hint for the generator).
    pub last_cursor: Option<(String, u64)>,
}

pub const BUDGET_PANIC: &str = "SIMFS_STEP_BUDGET_EXCEEDED";

fn os_err(errno: i32) -> io::Error {
    io::Error::from_raw_os_error(errno)
}

pub const EIO: i32 = 5;
pub const ENOENT: i32 = 2;
pub const EACCES: i32 = 13;
pub const EMFILE: i32 = 24;
pub const EEXIST: i32 = 17;
pub const EISDIR: i32 = 21;
pub const EBADF: i32 = 9;
pub const EINVAL: i32 = 22;

impl SimFs {
    pub fn new(image: &Image, seed: u64) -> SimFs {
        SimFs {
            st: FsState::from_image(image),
            handles: BTreeMap::new(),
            next_handle: 1,
            trace: Vec::new(),
            cur_op: 0,
            budget: usize::MAX,
            budget_base: 0,
            faults: Vec::new(),
            sticky: Vec::new(),
            pending_read_err: None,
            bug: Buggify::default(),
            bug_rng: Rng::new(seed ^ 0xB066_1F7),
            eintr_streak: 0,
            fired: Fired::default(),
            dir_perm_seed: seed,
            bases: Vec::new(),
            last_cursor: None,
        }
    }

    pub fn image(&self) -> Image {
        self.st.to_image()
    }

    pub fn mark_incarnation(&mut self) {
        self.bases.push((self.trace.len(), self.st.clone()));
    }

    /// Allows `n` more fs calls from now on.
    pub fn set_budget(&mut self, n: usize) {
        self.budget_base = self.trace.len();
        self.budget = n;
    }

    pub fn clear_budget(&mut self) {
        self.budget = usize::MAX;
    }

    fn push(&mut self, eff: Eff) {
        self.trace.push(Effect { op: self.cur_op, eff });
    }

    fn rel_name(path: &Path) -> Option<String> {
        let rel = path.strip_prefix(DIR).ok()?;
        let s = rel.to_str()?;
        if s.is_empty() {
            None
        } else {
            Some(s.to_string())
        }
    }

    /// Common prologue of every call: step budget, sticky and scheduled faults.
    fn enter(&mut self, class: Class, target: &str) -> io::Result<()> {
        if self.trace.len() - self.budget_base >= self.budget {
            panic!("{}", BUDGET_PANIC);
        }
        if let Some(&(_, _, errno)) = self
            .sticky
            .iter()
            .find(|(c, t, _)| *c == class && t == target)
        {
            self.fired.ioerr_sticky += 1;
            self.push(Eff::Fail { class, target: target.to_string(), errno, injected: true });
            return Err(os_err(errno));
        }
        let at = self.trace.len();
        if let Some(idx) = self.faults.iter().position(|f| f.at == at) {
            let fault = self.faults[idx].clone();
            if class == Class::Read && fault.consumed > 0 {
                // handled by read(): short read now, error at the next read of that handle.
                return Ok(());
            }
            self.fire(class, target, &fault);
            return Err(os_err(fault.errno));
        }
        Ok(())
    }

    fn fire(&mut self, class: Class, target: &str, fault: &IoFault) {
        self.fired.ioerr += 1;
        if fault.persistent {
            self.sticky.push((class, target.to_string(), fault.errno));
        }
        self.push(Eff::Fail { class, target: target.to_string(), errno: fault.errno, injected: true });
    }

    fn natural_fail(&mut self, class: Class, target: &str, errno: i32) -> io::Error {
        self.push(Eff::Fail { class, target: target.to_string(), errno, injected: false });
        os_err(errno)
    }

    fn maybe_eintr(&mut self, class: Class, target: &str) -> io::Result<()> {
        if self.bug.eintr > 0 && self.eintr_streak < 3 && self.bug_rng.below(1000) < self.bug.eintr as u64 {
            self.eintr_streak += 1;
            self.fired.eintr += 1;
            self.push(Eff::Fail { class, target: target.to_string(), errno: 4, injected: true });
            return Err(io::Error::from(io::ErrorKind::Interrupted));
        }
        self.eintr_streak = 0;
        Ok(())
    }
}

impl VerifFs for SimFs {
    fn read_dir(&mut self, path: &Path) -> io::Result<Vec<io::Result<OsString>>> {
        self.enter(Class::ReadDir, "")?;
        if path != Path::new(DIR) {
            return Err(self.natural_fail(Class::ReadDir, "", ENOENT));
        }
        self.push(Eff::ReadDir);
        let mut names: Vec<String> = self.st.dir.keys().cloned().collect();
        let mut rng = Rng::new(self.dir_perm_seed ^ self.trace.len() as u64);
        rng.shuffle(&mut names);
        Ok(names
            .into_iter()
            .map(|name| {
                if let Some(rest) = name.strip_prefix(NONUTF8_PREFIX) {
                    use std::os::unix::ffi::OsStringExt;
                    let mut bytes = rest.as_bytes().to_vec();
                    bytes.push(0xFF);
                    Ok(OsString::from_vec(bytes))
                } else {
                    Ok(OsString::from(name))
                }
            })
            .collect())
    }

    fn file_type(&mut self, _dir: &Path, name: &OsString) -> io::Result<EntryKind> {
        let key = match name.to_str() {
            Some(s) => s.to_string(),
            None => {
                use std::os::unix::ffi::OsStrExt;
                let bytes = name.as_bytes();
                format!("{}{}", NONUTF8_PREFIX, String::from_utf8_lossy(&bytes[..bytes.len() - 1]))
            }
        };
        self.enter(Class::Stat, &key)?;
        let kind = match self.st.dir.get(&key) {
            Some(DNode::File(_)) => EntryKind::File,
            Some(DNode::Dir) => EntryKind::Dir,
            Some(DNode::Symlink) => EntryKind::Symlink,
            None => return Err(self.natural_fail(Class::Stat, &key, ENOENT)),
        };
        self.push(Eff::Stat { name: key });
        Ok(kind)
    }

    fn open(&mut self, path: &Path, flags: OpenFlags) -> io::Result<u64> {
        if path == Path::new(DIR) {
            self.enter(Class::OpenDir, "")?;
            if flags.write || flags.create_new {
                return Err(self.natural_fail(Class::OpenDir, "", EISDIR));
            }
            self.push(Eff::OpenDir);
            let h = self.next_handle;
            self.next_handle += 1;
            self.handles.insert(h, Handle { ino: None, pos: 0, name: String::new(), writable: false, readable: true, append: false });
            return Ok(h);
        }
        let name = match Self::rel_name(path) {
            Some(name) => name,
            None => {
                self.enter(Class::Open, "?")?;
                return Err(self.natural_fail(Class::Open, "?", ENOENT));
            }
        };
        if flags.create_new {
            self.enter(Class::Create, &name)?;
            if self.st.dir.contains_key(&name) {
                return Err(self.natural_fail(Class::Create, &name, EEXIST));
            }
            let ino = self.st.inodes.len();
            let eff = Eff::Create { name: name.clone(), ino };
            self.st.apply(&eff);
            self.push(eff);
            let h = self.next_handle;
            self.next_handle += 1;
            self.handles.insert(h, Handle { ino: Some(ino), pos: 0, name, writable: flags.write || flags.append, readable: flags.read, append: flags.append });
            return Ok(h);
        }
        self.enter(Class::Open, &name)?;
        if flags.create && !self.st.dir.contains_key(&name) {
            let ino = self.st.inodes.len();
            let eff = Eff::Create { name: name.clone(), ino };
            self.st.apply(&eff);
            self.push(eff);
        }
        let ino = match self.st.dir.get(&name) {
            Some(DNode::File(ino)) => *ino,
            Some(DNode::Dir) => {
                let errno = if flags.write { EISDIR } else { EINVAL };
                return Err(self.natural_fail(Class::Open, &name, errno));
            }
            // simulated symlinks dangle
            Some(DNode::Symlink) | None => return Err(self.natural_fail(Class::Open, &name, ENOENT)),
        };
        self.push(Eff::Open { name: name.clone(), ino });
        if flags.truncate && (flags.write || flags.append) && !self.st.inodes[ino].is_empty() {
            let eff = Eff::SetLen { name: name.clone(), ino, len: 0 };
            self.st.apply(&eff);
            self.push(eff);
        }
        let h = self.next_handle;
        self.next_handle += 1;
        self.handles.insert(h, Handle { ino: Some(ino), pos: 0, name, writable: flags.write || flags.append, readable: flags.read, append: flags.append });
        Ok(h)
    }

    fn set_len(&mut self, handle: u64, len: u64) -> io::Result<()> {
        let (ino, name) = {
            let h = self.handles.get(&handle).expect("set_len on closed handle");
            (h.ino, h.name.clone())
        };
        self.enter(Class::SetLen, &name)?;
        let Some(ino) = ino else {
            return Err(self.natural_fail(Class::SetLen, &name, EINVAL));
        };
        let eff = Eff::SetLen { name, ino, len };
        self.st.apply(&eff);
        self.push(eff);
        Ok(())
    }

    fn seek(&mut self, handle: u64, pos: SeekFrom) -> io::Result<u64> {
        let (ino, name, cur) = {
            let h = self.handles.get(&handle).expect("seek on closed handle");
            (h.ino, h.name.clone(), h.pos)
        };
        self.enter(Class::Seek, &name)?;
        let Some(ino) = ino else {
            return Err(self.natural_fail(Class::Seek, &name, EINVAL));
        };
        let size = self.st.inodes[ino].len() as i128;
        let new_pos: i128 = match pos {
            SeekFrom::Start(n) => n as i128,
            SeekFrom::Current(d) => cur as i128 + d as i128,
            SeekFrom::End(d) => size + d as i128,
        };
        if new_pos < 0 {
            return Err(self.natural_fail(Class::Seek, &name, EINVAL));
        }
        let new_pos = new_pos as u64;
        self.handles.get_mut(&handle).unwrap().pos = new_pos;
        self.push(Eff::Seek { name: name.clone(), ino, pos: new_pos });
        self.last_cursor = Some((name, new_pos));
        Ok(new_pos)
    }

    fn read(&mut self, handle: u64, buf: &mut [u8]) -> io::Result<usize> {
        let (ino, name, pos, readable) = {
            let h = self.handles.get(&handle).expect("read on closed handle");
            (h.ino, h.name.clone(), h.pos, h.readable)
        };
        if let Some((h, errno)) = self.pending_read_err {
            if h == handle {
                self.pending_read_err = None;
                if self.trace.len() - self.budget_base >= self.budget {
                    panic!("{}", BUDGET_PANIC);
                }
                self.fired.ioerr += 1;
                self.push(Eff::Fail { class: Class::Read, target: name, errno, injected: true });
                return Err(os_err(errno));
            }
        }
        let at = self.trace.len();
        self.enter(Class::Read, &name)?;
        let Some(ino) = ino else {
            return Err(self.natural_fail(Class::Read, &name, EISDIR));
        };
        if !readable {
            return Err(self.natural_fail(Class::Read, &name, EBADF));
        }
        self.maybe_eintr(Class::Read, &name)?;
        let data = self.st.inodes[ino].clone();
        let avail = data.len().saturating_sub(pos as usize);
        let mut n = avail.min(buf.len());
        // injected "short read then error"
        if let Some(idx) = self.faults.iter().position(|f| f.at == at && f.consumed > 0) {
            let fault = self.faults[idx].clone();
            if n == 0 {
                // nothing to deliver first (read at EOF): fail right away
                self.fire(Class::Read, &name, &fault);
                return Err(os_err(fault.errno));
            }
            n = n.min(fault.consumed.max(1));
            // the fault counts as fired only when the error itself is delivered (next read of this handle)
            if fault.persistent {
                self.sticky.push((Class::Read, name.clone(), fault.errno));
            } else {
                self.pending_read_err = Some((handle, fault.errno));
            }
        } else if n > 1 && self.bug.short_read > 0 && self.bug_rng.below(1000) < self.bug.short_read as u64 {
            n = 1 + self.bug_rng.usize_below(n - 1);
            self.fired.short_read += 1;
        }
        buf[..n].copy_from_slice(&data[pos as usize..pos as usize + n]);
        self.handles.get_mut(&handle).unwrap().pos = pos + n as u64;
        self.push(Eff::Read { name, ino, off: pos, len: n });
        Ok(n)
    }

    fn write(&mut self, handle: u64, buf: &[u8]) -> io::Result<usize> {
        let (ino, name, mut pos, writable) = {
            let h = self.handles.get(&handle).expect("write on closed handle");
            (h.ino, h.name.clone(), h.pos, h.writable)
        };
        if let (Some(ino), true) = (ino, self.handles[&handle].append) {
            pos = self.st.inodes[ino].len() as u64;
        }
        self.enter(Class::Write, &name)?;
        let Some(ino) = ino else {
            return Err(self.natural_fail(Class::Write, &name, EBADF));
        };
        if !writable {
            return Err(self.natural_fail(Class::Write, &name, EBADF));
        }
        self.maybe_eintr(Class::Write, &name)?;
        let mut n = buf.len();
        if n > 1 && self.bug.short_write > 0 && self.bug_rng.below(1000) < self.bug.short_write as u64 {
            n = 1 + self.bug_rng.usize_below(n - 1);
            self.fired.short_write += 1;
        }
        let eff = Eff::Write { name: name.clone(), ino, off: pos, data: buf[..n].to_vec() };
        self.st.apply(&eff);
        self.push(eff);
        self.handles.get_mut(&handle).unwrap().pos = pos + n as u64;
        self.last_cursor = Some((name, pos + n as u64));
        Ok(n)
    }

    fn sync_data(&mut self, handle: u64) -> io::Result<()> {
        let (ino, name) = {
            let h = self.handles.get(&handle).expect("sync on closed handle");
            (h.ino, h.name.clone())
        };
        match ino {
            None => {
                self.enter(Class::SyncDir, "")?;
                self.push(Eff::SyncDir);
            }
            Some(ino) => {
                self.enter(Class::SyncData, &name)?;
                self.push(Eff::SyncData { name, ino });
            }
        }
        Ok(())
    }

    fn close(&mut self, handle: u64) {
        self.handles.remove(&handle);
        if let Some((h, _)) = self.pending_read_err {
            if h == handle {
                self.pending_read_err = None;
            }
        }
    }

    fn remove_file(&mut self, path: &Path) -> io::Result<()> {
        let name = Self::rel_name(path).unwrap_or_else(|| "?".to_string());
        self.enter(Class::Unlink, &name)?;
        let ino = match self.st.dir.get(&name) {
            Some(DNode::File(ino)) => Some(*ino),
            Some(DNode::Symlink) => None,
            Some(DNode::Dir) => return Err(self.natural_fail(Class::Unlink, &name, EISDIR)),
            None => return Err(self.natural_fail(Class::Unlink, &name, ENOENT)),
        };
        let eff = Eff::Unlink { name, ino };
        self.st.apply(&eff);
        self.push(eff);
        Ok(())
    }

    fn file_len(&mut self, handle: u64) -> io::Result<u64> {
        let (ino, name) = {
            let h = self.handles.get(&handle).expect("metadata on closed handle");
            (h.ino, h.name.clone())
        };
        self.enter(Class::Stat, &name)?;
        let len = ino.map(|i| self.st.inodes[i].len() as u64).unwrap_or(4096);
        self.push(Eff::Stat { name });
        Ok(len)
    }

    fn rename(&mut self, from: &Path, to: &Path) -> io::Result<()> {
        let from = Self::rel_name(from).unwrap_or_else(|| "?".to_string());
        let to = Self::rel_name(to).unwrap_or_else(|| "?".to_string());
        self.enter(Class::Rename, &from)?;
        if !self.st.dir.contains_key(&from) {
            return Err(self.natural_fail(Class::Rename, &from, ENOENT));
        }
        // rename(2): a non-directory cannot replace a directory (EISDIR), a directory cannot replace a non-directory
        // (ENOTDIR); a symlink or a regular file at the destination is replaced
        let from_is_dir = matches!(self.st.dir.get(&from), Some(DNode::Dir));
        match self.st.dir.get(&to) {
            Some(DNode::Dir) if !from_is_dir => return Err(self.natural_fail(Class::Rename, &from, EISDIR)),
            Some(DNode::File(_)) | Some(DNode::Symlink) if from_is_dir => return Err(self.natural_fail(Class::Rename, &from, 20)),
            _ => {}
        }
        let eff = Eff::Rename { from, to };
        self.st.apply(&eff);
        self.push(eff);
        Ok(())
    }
}

/// Shared handle installed as the thread's backend.
pub struct SharedFs(pub Rc<RefCell<SimFs>>);

impl VerifFs for SharedFs {
    fn read_dir(&mut self, path: &Path) -> io::Result<Vec<io::Result<OsString>>> {
        self.0.borrow_mut().read_dir(path)
    }
    fn file_type(&mut self, dir: &Path, name: &OsString) -> io::Result<EntryKind> {
        self.0.borrow_mut().file_type(dir, name)
    }
    fn open(&mut self, path: &Path, flags: OpenFlags) -> io::Result<u64> {
        self.0.borrow_mut().open(path, flags)
    }
    fn set_len(&mut self, handle: u64, len: u64) -> io::Result<()> {
        self.0.borrow_mut().set_len(handle, len)
    }
    fn seek(&mut self, handle: u64, pos: SeekFrom) -> io::Result<u64> {
        self.0.borrow_mut().seek(handle, pos)
    }
    fn read(&mut self, handle: u64, buf: &mut [u8]) -> io::Result<usize> {
        self.0.borrow_mut().read(handle, buf)
    }
    fn write(&mut self, handle: u64, buf: &[u8]) -> io::Result<usize> {
        self.0.borrow_mut().write(handle, buf)
    }
    fn sync_data(&mut self, handle: u64) -> io::Result<()> {
        self.0.borrow_mut().sync_data(handle)
    }
    fn close(&mut self, handle: u64) {
        self.0.borrow_mut().close(handle)
    }
    fn remove_file(&mut self, path: &Path) -> io::Result<()> {
        self.0.borrow_mut().remove_file(path)
    }
    fn file_len(&mut self, handle: u64) -> io::Result<u64> {
        self.0.borrow_mut().file_len(handle)
    }
    fn rename(&mut self, from: &Path, to: &Path) -> io::Result<()> {
        self.0.borrow_mut().rename(from, to)
    }
}
