//! SimFs fidelity check: every file-system call of a fault-free run is executed on the simulated
//! file system AND on the real one (a scratch directory); results are compared call by call and
//! the final directory contents byte for byte. A mismatch is a harness error, never a verdict.
use std::cell::RefCell;
use std::collections::BTreeMap;
use std::ffi::OsString;
use std::io::{self, Read, Seek, SeekFrom, Write};
use std::os::unix::ffi::OsStringExt;
use std::path::{Path, PathBuf};
use std::rc::Rc;

use mrecordlog::verif::{EntryKind, OpenFlags, VerifFs};

use crate::simfs::{Image, Node, SimFs, DIR, NONUTF8_PREFIX};

pub struct TwinFs {
    pub sim: Rc<RefCell<SimFs>>,
    pub root: PathBuf,
    files: BTreeMap<u64, std::fs::File>,
    pub mismatches: Rc<RefCell<Vec<String>>>,
}

fn real_name(name: &str) -> OsString {
    if let Some(rest) = name.strip_prefix(NONUTF8_PREFIX) {
        let mut b = rest.as_bytes().to_vec();
        b.push(0xFF);
        OsString::from_vec(b)
    } else {
        OsString::from(name)
    }
}

fn sim_name(name: &OsString) -> String {
    match name.to_str() {
        Some(s) => s.to_string(),
        None => {
            use std::os::unix::ffi::OsStrExt;
            let b = name.as_bytes();
            format!("{}{}", NONUTF8_PREFIX, String::from_utf8_lossy(&b[..b.len() - 1]))
        }
    }
}

impl TwinFs {
    pub fn new(sim: Rc<RefCell<SimFs>>, root: PathBuf, image: &Image, mismatches: Rc<RefCell<Vec<String>>>) -> TwinFs {
        let _ = std::fs::remove_dir_all(&root);
        std::fs::create_dir_all(&root).expect("cannot create twin directory");
        for (name, node) in image {
            let p = root.join(real_name(name));
            match node {
                Node::File(d) => std::fs::write(&p, &d[..]).expect("twin: write"),
                Node::Dir => std::fs::create_dir(&p).expect("twin: mkdir"),
                Node::Symlink => std::os::unix::fs::symlink("/nonexistent/target/of/simulated/symlink", &p).expect("twin: symlink"),
            }
        }
        TwinFs { sim, root, files: BTreeMap::new(), mismatches }
    }

    fn real_path(&self, path: &Path) -> PathBuf {
        match path.strip_prefix(DIR) {
            Ok(rel) if rel.as_os_str().is_empty() => self.root.clone(),
            Ok(rel) => match rel.to_str() {
                Some(s) => self.root.join(real_name(s)),
                None => self.root.join(rel),
            },
            Err(_) => self.root.join("__outside__"),
        }
    }

    fn note(&self, what: String) {
        let mut m = self.mismatches.borrow_mut();
        if m.len() < 5 {
            m.push(what);
        }
    }

    fn cmp_res<T, U>(&self, call: &str, sim: &io::Result<T>, real: &io::Result<U>) {
        match (sim, real) {
            (Ok(_), Ok(_)) => {}
            (Err(a), Err(b)) => {
                if a.kind() != b.kind() {
                    self.note(format!("{call}: sim error {:?} vs real error {:?}", a.kind(), b.kind()));
                }
            }
            (Ok(_), Err(b)) => self.note(format!("{call}: sim Ok vs real error {:?}", b.kind())),
            (Err(a), Ok(_)) => self.note(format!("{call}: sim error {:?} vs real Ok", a.kind())),
        }
    }

    /// Compares the final directory contents.
    pub fn compare_images(&self) {
        let sim_image = self.sim.borrow().image();
        let mut real: BTreeMap<String, Option<Vec<u8>>> = BTreeMap::new();
        for e in std::fs::read_dir(&self.root).expect("twin: read_dir") {
            let e = e.unwrap();
            let name = sim_name(&e.file_name());
            let ft = e.file_type().unwrap();
            real.insert(name, if ft.is_file() { Some(std::fs::read(e.path()).unwrap()) } else { None });
        }
        if real.len() != sim_image.len() {
            self.note(format!("final directory: sim has {:?}, real has {:?}", sim_image.keys().collect::<Vec<_>>(), real.keys().collect::<Vec<_>>()));
            return;
        }
        for (name, node) in &sim_image {
            match (node, real.get(name)) {
                (Node::File(d), Some(Some(r))) => {
                    if d[..] != r[..] {
                        let at = d.iter().zip(r.iter()).position(|(a, b)| a != b);
                        self.note(format!("final content of {name} differs (sim {} B, real {} B, first difference at {:?})", d.len(), r.len(), at));
                    }
                }
                (Node::Dir | Node::Symlink, Some(None)) => {}
                _ => self.note(format!("final directory entry {name} differs in kind or is missing")),
            }
        }
    }
}

impl Drop for TwinFs {
    fn drop(&mut self) {
        self.files.clear();
        let _ = std::fs::remove_dir_all(&self.root);
    }
}

impl VerifFs for TwinFs {
    fn read_dir(&mut self, path: &Path) -> io::Result<Vec<io::Result<OsString>>> {
        let sim = self.sim.borrow_mut().read_dir(path);
        let real = std::fs::read_dir(self.real_path(path));
        self.cmp_res("read_dir", &sim, &real);
        if let (Ok(s), Ok(r)) = (&sim, real) {
            let mut a: Vec<OsString> = s.iter().filter_map(|x| x.as_ref().ok().cloned()).collect();
            let mut b: Vec<OsString> = r.filter_map(|x| x.ok().map(|e| e.file_name())).collect();
            a.sort();
            b.sort();
            if a != b {
                self.note(format!("read_dir: sim lists {:?}, real lists {:?}", a, b));
            }
        }
        sim
    }

    fn file_type(&mut self, dir: &Path, name: &OsString) -> io::Result<EntryKind> {
        let sim = self.sim.borrow_mut().file_type(dir, name);
        let real = std::fs::symlink_metadata(self.real_path(dir).join(name)).map(|m| {
            let ft = m.file_type();
            if ft.is_file() { EntryKind::File } else if ft.is_dir() { EntryKind::Dir } else if ft.is_symlink() { EntryKind::Symlink } else { EntryKind::Other }
        });
        self.cmp_res("file_type", &sim, &real);
        if let (Ok(a), Ok(b)) = (&sim, &real) {
            if a != b {
                self.note(format!("file_type({name:?}): sim {a:?} vs real {b:?}"));
            }
        }
        sim
    }

    fn open(&mut self, path: &Path, flags: OpenFlags) -> io::Result<u64> {
        let sim = self.sim.borrow_mut().open(path, flags);
        let real = std::fs::OpenOptions::new().read(flags.read).write(flags.write).create_new(flags.create_new).create(flags.create).truncate(flags.truncate).append(flags.append).open(self.real_path(path));
        self.cmp_res(&format!("open({path:?},{flags:?})"), &sim, &real);
        if let (Ok(h), Ok(f)) = (&sim, real) {
            self.files.insert(*h, f);
        }
        sim
    }

    fn set_len(&mut self, handle: u64, len: u64) -> io::Result<()> {
        let sim = self.sim.borrow_mut().set_len(handle, len);
        let real = self.files.get(&handle).map(|f| f.set_len(len)).unwrap_or(Ok(()));
        self.cmp_res("set_len", &sim, &real);
        sim
    }

    fn seek(&mut self, handle: u64, pos: SeekFrom) -> io::Result<u64> {
        let sim = self.sim.borrow_mut().seek(handle, pos);
        let real = self.files.get_mut(&handle).map(|f| f.seek(pos)).unwrap_or(Ok(0));
        self.cmp_res("seek", &sim, &real);
        if let (Ok(a), Ok(b)) = (&sim, &real) {
            if a != b {
                self.note(format!("seek({pos:?}): sim position {a} vs real {b}"));
            }
        }
        sim
    }

    fn read(&mut self, handle: u64, buf: &mut [u8]) -> io::Result<usize> {
        let sim = self.sim.borrow_mut().read(handle, buf);
        if let (Ok(n), Some(f)) = (&sim, self.files.get_mut(&handle)) {
            // the real kernel may legally return fewer bytes: read until we have as many as the simulator returned
            let mut real = vec![0u8; buf.len()];
            let mut got = 0;
            let want = if *n == 0 { buf.len() } else { *n };
            while got < want {
                match f.read(&mut real[got..want]) {
                    Ok(0) => break,
                    Ok(k) => got += k,
                    Err(e) if e.kind() == io::ErrorKind::Interrupted => continue,
                    Err(e) => {
                        self.note(format!("read: sim Ok({n}) vs real error {:?}", e.kind()));
                        break;
                    }
                }
            }
            if got != *n || real[..got] != buf[..*n] {
                self.note(format!("read of {} bytes: sim returned {} bytes, real {} bytes, content equal: {}", buf.len(), n, got, got == *n && real[..got] == buf[..*n]));
            }
        }
        sim
    }

    fn write(&mut self, handle: u64, buf: &[u8]) -> io::Result<usize> {
        let sim = self.sim.borrow_mut().write(handle, buf);
        if let (Ok(n), Some(f)) = (&sim, self.files.get_mut(&handle)) {
            if let Err(e) = f.write_all(&buf[..*n]) {
                self.note(format!("write: sim Ok({n}) vs real error {:?}", e.kind()));
            }
        }
        sim
    }

    fn sync_data(&mut self, handle: u64) -> io::Result<()> {
        let sim = self.sim.borrow_mut().sync_data(handle);
        let real = self.files.get(&handle).map(|f| f.sync_data()).unwrap_or(Ok(()));
        self.cmp_res("sync_data", &sim, &real);
        sim
    }

    fn close(&mut self, handle: u64) {
        self.sim.borrow_mut().close(handle);
        self.files.remove(&handle);
    }

    fn remove_file(&mut self, path: &Path) -> io::Result<()> {
        let sim = self.sim.borrow_mut().remove_file(path);
        let real = std::fs::remove_file(self.real_path(path));
        self.cmp_res(&format!("remove_file({path:?})"), &sim, &real);
        sim
    }

    fn file_len(&mut self, handle: u64) -> io::Result<u64> {
        let sim = self.sim.borrow_mut().file_len(handle);
        let real = self.files.get(&handle).map(|f| f.metadata().map(|m| m.len())).unwrap_or(Ok(0));
        self.cmp_res("file_len", &sim, &real);
        if let (Ok(a), Ok(b), true) = (&sim, &real, self.files.contains_key(&handle)) {
            if a != b {
                self.note(format!("file_len: sim {a} vs real {b}"));
            }
        }
        sim
    }

    fn rename(&mut self, from: &Path, to: &Path) -> io::Result<()> {
        let sim = self.sim.borrow_mut().rename(from, to);
        let real = std::fs::rename(self.real_path(from), self.real_path(to));
        self.cmp_res("rename", &sim, &real);
        sim
    }
}

/// Delegate installed as the thread's backend while a twin world runs.
pub struct SharedTwin(pub Rc<RefCell<TwinFs>>);

impl VerifFs for SharedTwin {
    fn read_dir(&mut self, path: &Path) -> io::Result<Vec<io::Result<OsString>>> {
        self.0.borrow_mut().read_dir(path)
    }
    fn file_type(&mut self, dir: &Path, name: &OsString) -> io::Result<EntryKind> {
        self.0.borrow_mut().file_type(dir, name)
    }
    fn open(&mut self, path: &Path, flags: OpenFlags) -> io::Result<u64> {
        self.0.borrow_mut().open(path, flags)
    }
    fn set_len(&mut self, handle: u64, len: u64) -> io::Result<()> {
        self.0.borrow_mut().set_len(handle, len)
    }
    fn seek(&mut self, handle: u64, pos: SeekFrom) -> io::Result<u64> {
        self.0.borrow_mut().seek(handle, pos)
    }
    fn read(&mut self, handle: u64, buf: &mut [u8]) -> io::Result<usize> {
        self.0.borrow_mut().read(handle, buf)
    }
    fn write(&mut self, handle: u64, buf: &[u8]) -> io::Result<usize> {
        self.0.borrow_mut().write(handle, buf)
    }
    fn sync_data(&mut self, handle: u64) -> io::Result<()> {
        self.0.borrow_mut().sync_data(handle)
    }
    fn close(&mut self, handle: u64) {
        self.0.borrow_mut().close(handle)
    }
    fn remove_file(&mut self, path: &Path) -> io::Result<()> {
        self.0.borrow_mut().remove_file(path)
    }
    fn file_len(&mut self, handle: u64) -> io::Result<u64> {
        self.0.borrow_mut().file_len(handle)
    }
    fn rename(&mut self, from: &Path, to: &Path) -> io::Result<()> {
        self.0.borrow_mut().rename(from, to)
    }
}

/// Runs a case with the twin attached; returns the mismatches (empty = SimFs agreed with the real fs).
pub fn validate(case: &crate::case::Case, tag: u64) -> Vec<String> {
    let mut c = case.clone();
    c.knobs.short_read = 0;
    c.knobs.short_write = 0;
    c.knobs.eintr = 0;
    let mut d = crate::run::Driver::new(&c);
    d.light = true;
    let mismatches = Rc::new(RefCell::new(Vec::new()));
    let root = std::env::temp_dir().join(format!("simctl-twin-{}-{:x}", std::process::id(), tag));
    let twin = Rc::new(RefCell::new(TwinFs::new(d.world.fs.clone(), root, &c.initial_image(), mismatches.clone())));
    d.world.twin = Some(twin.clone());
    d.run_all(&c.ops);
    d.world.close();
    twin.borrow().compare_images();
    d.world.twin = None;
    drop(d);
    let out = mismatches.borrow().clone();
    out
}
