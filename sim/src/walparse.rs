//! Independent WAL parser / writer (layout knowledge only: no code shared with the crate).
//!
//! block = 32 KiB; frame = crc32(type ‖ payload) LE u32, len LE u16, type u8 (1 Full, 2 First,
//! 3 Middle, 4 Last), payload; frames never cross a block; < 7 bytes left in a block are zero
//! padding; an all-zero header ends the log. Entry = tag u8 (1 Truncate, 2 Position, 3 Delete,
//! 4 Append), position LE u64, name length LE u16, name, then for Append a sequence of
//! (position LE u64, len LE u32, bytes).
use crate::model::Rec;
use crate::simfs::{wal_number, Image, Node, BLOCK, FILE_BYTES};

pub const HDR: usize = 7;

pub fn frame_crc(ftype: u8, payload: &[u8]) -> u32 {
    let mut h = crc32fast::Hasher::new();
    h.update(&[ftype]);
    h.update(payload);
    h.finalize()
}

#[derive(Clone, Debug, PartialEq, Eq)]
pub enum EntryKind {
    Append { queue: String, position: u64, recs: Vec<Rec> },
    Truncate { queue: String, upto: u64 },
    Position { queue: String, position: u64 },
    Delete { queue: String, position: u64 },
    Undecodable,
}

impl EntryKind {
    pub fn queue(&self) -> Option<&str> {
        match self {
            EntryKind::Append { queue, .. }
            | EntryKind::Truncate { queue, .. }
            | EntryKind::Position { queue, .. }
            | EntryKind::Delete { queue, .. } => Some(queue),
            EntryKind::Undecodable => None,
        }
    }
}

#[derive(Clone, Debug)]
pub struct Frame {
    /// index into `Parsed::files`
    pub file: usize,
    /// offset of the header inside the file
    pub off: usize,
    pub len: usize,
    pub ftype: u8,
    /// entry this frame belongs to
    pub entry: usize,
}

#[derive(Clone, Debug)]
pub struct Entry {
    pub kind: EntryKind,
    pub first_frame: usize,
    pub last_frame: usize,
    pub bytes: usize,
    /// padding bytes written immediately before the entry's frames (inside the entry: sum over its frames)
    pub padding: usize,
}

#[derive(Clone, Debug, Default)]
pub struct Parsed {
    pub files: Vec<String>,
    pub frames: Vec<Frame>,
    pub entries: Vec<Entry>,
    /// (file index, offset) where the log ends = where the next write should land
    pub end: (usize, usize),
    pub problems: Vec<String>,
}

pub fn decode_entry(buf: &[u8]) -> EntryKind {
    if buf.len() < 11 {
        return EntryKind::Undecodable;
    }
    let tag = buf[0];
    let position = u64::from_le_bytes(buf[1..9].try_into().unwrap());
    let qlen = u16::from_le_bytes(buf[9..11].try_into().unwrap()) as usize;
    if buf.len() < 11 + qlen {
        return EntryKind::Undecodable;
    }
    let Ok(queue) = std::str::from_utf8(&buf[11..11 + qlen]) else {
        return EntryKind::Undecodable;
    };
    let queue = queue.to_string();
    let body = &buf[11 + qlen..];
    match tag {
        1 => EntryKind::Truncate { queue, upto: position },
        2 => EntryKind::Position { queue, position },
        3 => EntryKind::Delete { queue, position },
        4 => {
            let mut recs = Vec::new();
            let mut i = 0;
            while i < body.len() {
                if body.len() - i < 12 {
                    return EntryKind::Undecodable;
                }
                let pos = u64::from_le_bytes(body[i..i + 8].try_into().unwrap());
                let len = u32::from_le_bytes(body[i + 8..i + 12].try_into().unwrap()) as usize;
                i += 12;
                if body.len() - i < len {
                    return EntryKind::Undecodable;
                }
                recs.push(Rec::of(pos, &body[i..i + len]));
                i += len;
            }
            EntryKind::Append { queue, position, recs }
        }
        _ => EntryKind::Undecodable,
    }
}

pub fn encode_entry(tag: u8, position: u64, queue: &[u8], body: &[u8]) -> Vec<u8> {
    let mut out = Vec::with_capacity(11 + queue.len() + body.len());
    out.push(tag);
    out.extend_from_slice(&position.to_le_bytes());
    out.extend_from_slice(&(queue.len() as u16).to_le_bytes());
    out.extend_from_slice(queue);
    out.extend_from_slice(body);
    out
}

pub fn encode_batch(recs: &[(u64, &[u8])]) -> Vec<u8> {
    let mut out = Vec::new();
    for (pos, bytes) in recs {
        out.extend_from_slice(&pos.to_le_bytes());
        out.extend_from_slice(&(bytes.len() as u32).to_le_bytes());
        out.extend_from_slice(bytes);
    }
    out
}

/// WAL files of an image in numeric order: (name, content).
pub fn wal_files(image: &Image) -> Vec<(String, std::rc::Rc<Vec<u8>>)> {
    let mut files: Vec<(u64, String, std::rc::Rc<Vec<u8>>)> = image
        .iter()
        .filter_map(|(name, node)| match (wal_number(name), node) {
            (Some(n), Node::File(data)) => Some((n, name.clone(), data.clone())),
            _ => None,
        })
        .collect();
    files.sort_by_key(|f| f.0);
    files.into_iter().map(|(_, n, d)| (n, d)).collect()
}

/// Strict parse of a *valid* image: every anomaly is recorded in `problems`.
pub fn parse(image: &Image) -> Parsed {
    let files = wal_files(image);
    let mut p = Parsed { files: files.iter().map(|f| f.0.clone()).collect(), ..Default::default() };
    let mut cur: Vec<u8> = Vec::new();
    let mut cur_first: Option<usize> = None;
    let mut cur_padding = 0usize;
    let mut pending_padding = 0usize;
    let mut ended = false;
    let mut seen_first = false;
    p.end = (0, 0);
    'files: for (fi, (_, data)) in files.iter().enumerate() {
        if ended {
            break;
        }
        let nblocks = data.len() / BLOCK;
        if data.len() % BLOCK != 0 {
            p.problems.push(format!("file {fi} length {} not a multiple of the block size", data.len()));
        }
        for b in 0..nblocks {
            let block = &data[b * BLOCK..(b + 1) * BLOCK];
            let mut c = 0usize;
            loop {
                if BLOCK - c < HDR {
                    if block[c..].iter().any(|&x| x != 0) {
                        p.problems.push(format!("non-zero padding at file {fi} off {}", b * BLOCK + c));
                    }
                    pending_padding += BLOCK - c;
                    break;
                }
                let hdr = &block[c..c + HDR];
                if hdr.iter().all(|&x| x == 0) {
                    p.end = (fi, b * BLOCK + c);
                    ended = true;
                    // everything after the end of the log must be zero in a valid image written sequentially
                    continue 'files;
                }
                let crc = u32::from_le_bytes(hdr[0..4].try_into().unwrap());
                let len = u16::from_le_bytes(hdr[4..6].try_into().unwrap()) as usize;
                let ftype = hdr[6];
                if !(1..=4).contains(&ftype) || c + HDR + len > BLOCK {
                    p.problems.push(format!("bad frame header at file {fi} off {}", b * BLOCK + c));
                    p.end = (fi, b * BLOCK + c);
                    ended = true;
                    continue 'files;
                }
                let payload = &block[c + HDR..c + HDR + len];
                if frame_crc(ftype, payload) != crc {
                    p.problems.push(format!("crc mismatch at file {fi} off {}", b * BLOCK + c));
                }
                let first = ftype == 1 || ftype == 2;
                let last = ftype == 1 || ftype == 4;
                if first {
                    if cur_first.is_some() {
                        p.problems.push(format!("entry restarted at file {fi} off {}", b * BLOCK + c));
                    }
                    cur.clear();
                    cur_first = Some(p.frames.len());
                    cur_padding = 0;
                } else if cur_first.is_none() && seen_first {
                    p.problems.push(format!("continuation frame without start at file {fi} off {}", b * BLOCK + c));
                }
                // the oldest surviving file may begin with the tail of an entry whose head was
                // garbage collected with the previous file: such frames belong to no entry
                let orphan = cur_first.is_none();
                seen_first |= first;
                cur_padding += pending_padding;
                pending_padding = 0;
                p.frames.push(Frame { file: fi, off: b * BLOCK + c, len, ftype, entry: if orphan { usize::MAX } else { p.entries.len() } });
                if !orphan {
                    cur.extend_from_slice(payload);
                }
                c += HDR + len;
                if last {
                    if let Some(ff) = cur_first.take() {
                        let nframes = p.frames.len() - ff;
                        p.entries.push(Entry {
                            kind: decode_entry(&cur),
                            first_frame: ff,
                            last_frame: p.frames.len() - 1,
                            bytes: cur.len() + nframes * HDR + cur_padding,
                            padding: cur_padding,
                        });
                    }
                }
                p.end = (fi, b * BLOCK + c);
            }
        }
    }
    if cur_first.is_some() {
        p.problems.push("log ends inside an entry".to_string());
    }
    p
}

/// Sequential WAL writer producing full-size zero-filled files, for forged images.
pub struct WalBuilder {
    pub files: Vec<Vec<u8>>,
    pub cursor: usize,
}

impl WalBuilder {
    pub fn new() -> WalBuilder {
        WalBuilder { files: vec![vec![0u8; FILE_BYTES]], cursor: 0 }
    }

    fn room(&mut self, n: usize) {
        if self.cursor + n > FILE_BYTES {
            self.files.push(vec![0u8; FILE_BYTES]);
            self.cursor = 0;
        }
    }

    /// Writes one raw frame (caller chooses type and may pass a wrong crc).
    pub fn raw_frame(&mut self, ftype: u8, payload: &[u8], crc_override: Option<u32>) {
        let rem = BLOCK - self.cursor % BLOCK;
        if rem < HDR {
            self.cursor += rem;
        }
        assert!(payload.len() + HDR <= BLOCK - self.cursor % BLOCK || self.cursor % BLOCK == 0 && payload.len() + HDR <= BLOCK);
        self.room(HDR + payload.len());
        let crc = crc_override.unwrap_or_else(|| frame_crc(ftype, payload));
        let file = self.files.last_mut().unwrap();
        file[self.cursor..self.cursor + 4].copy_from_slice(&crc.to_le_bytes());
        file[self.cursor + 4..self.cursor + 6].copy_from_slice(&(payload.len() as u16).to_le_bytes());
        file[self.cursor + 6] = ftype;
        file[self.cursor + HDR..self.cursor + HDR + payload.len()].copy_from_slice(payload);
        self.cursor += HDR + payload.len();
    }

    pub fn max_payload(&self) -> usize {
        let rem = BLOCK - self.cursor % BLOCK;
        if rem >= HDR {
            rem - HDR
        } else {
            BLOCK - HDR
        }
    }

    /// Writes an entry with correct framing.
    pub fn entry(&mut self, bytes: &[u8]) {
        let mut rest = bytes;
        let mut first = true;
        loop {
            let take = self.max_payload().min(rest.len());
            let (now, later) = rest.split_at(take);
            let last = later.is_empty();
            let ftype = match (first, last) {
                (true, true) => 1,
                (true, false) => 2,
                (false, false) => 3,
                (false, true) => 4,
            };
            self.raw_frame(ftype, now, None);
            first = false;
            rest = later;
            if last {
                break;
            }
        }
    }

    pub fn into_image(self, first_number: u64) -> Image {
        let mut image = Image::new();
        for (i, f) in self.files.into_iter().enumerate() {
            image.insert(crate::simfs::wal_name(first_number + i as u64), Node::File(std::rc::Rc::new(f)));
        }
        image
    }
}

/// A full-size file of CRC-valid frames mentioning a queue named "ghost" (for foreign-file tests).
pub fn forge_valid_block(seed: u64) -> Vec<u8> {
    let mut b = WalBuilder::new();
    let mut rng = crate::prng::Rng::new(seed);
    b.entry(&encode_entry(2, 0, b"ghost", &[]));
    for i in 0..(1 + rng.below(5)) {
        let payload = vec![0x47u8; 1 + rng.usize_below(300)];
        let body = encode_batch(&[(i, &payload[..])]);
        b.entry(&encode_entry(4, i, b"ghost", &body));
    }
    b.files.swap_remove(0)
}

/// Cursor after writing an entry of `entry_len` bytes starting at in-file offset `cursor`
/// (offset may exceed the file size: the caller normalises). Returns (new cursor, bytes written incl. padding).
pub fn advance(cursor: usize, entry_len: usize) -> (usize, usize) {
    let mut c = cursor;
    let mut rest = entry_len;
    loop {
        let rem = BLOCK - c % BLOCK;
        if rem < HDR {
            c += rem;
        }
        let cap = BLOCK - c % BLOCK - HDR;
        let take = cap.min(rest);
        c += HDR + take;
        rest -= take;
        if rest == 0 {
            break;
        }
    }
    (c, c - cursor)
}

pub fn append_entry_len(name_len: usize, lens: &[u32]) -> usize {
    11 + name_len + lens.iter().map(|&l| 12 + l as usize).sum::<usize>()
}
