//! Wall-clock watchdog for CPU-only loops inside `open` (C10). It is the single place a real clock
//! is read; it can only add a failure, and the failure is reported through a replay file.
use std::sync::Mutex;
use std::time::Instant;

use crate::case::Case;
use crate::fault::Fault;

struct Armed {
    since: Instant,
    prop: String,
    case: Case,
    fault: Fault,
}

static SLOTS: Mutex<Vec<(std::thread::ThreadId, Armed)>> = Mutex::new(Vec::new());
static STARTED: std::sync::Once = std::sync::Once::new();

pub const LIMIT_S: u64 = 20;

pub fn arm(prop: &str, case: &Case, fault: &Fault) {
    STARTED.call_once(|| {
        std::thread::spawn(|| loop {
            std::thread::sleep(std::time::Duration::from_secs(1));
            let slots = SLOTS.lock().unwrap();
            for (_, a) in slots.iter() {
                if a.since.elapsed().as_secs() >= LIMIT_S {
                    let root = std::env::var("VERIF_ROOT").unwrap_or_else(|_| "/verif".to_string());
                    let _ = std::fs::create_dir_all(format!("{root}/replays"));
                    let path = format!("{root}/replays/{}-watchdog-{}.json", a.prop, std::process::id());
                    let found = crate::check::Found { prop: a.prop.clone(), clause: "hang".to_string(), detail: format!("open did not return within {LIMIT_S} s of wall-clock time"), case: a.case.clone(), fault: a.fault.clone() };
                    let doc = serde_json::json!({"property": a.prop, "clause": "hang", "detail": found.detail, "found": found});
                    let _ = std::fs::write(&path, serde_json::to_string_pretty(&doc).unwrap());
                    println!("VIOLATION property={} replay={}", a.prop, path);
                    std::process::exit(1);
                }
            }
        });
    });
    let id = std::thread::current().id();
    let mut slots = SLOTS.lock().unwrap();
    slots.retain(|(t, _)| *t != id);
    slots.push((id, Armed { since: Instant::now(), prop: prop.to_string(), case: case.clone(), fault: fault.clone() }));
}

pub fn disarm() {
    let id = std::thread::current().id();
    SLOTS.lock().unwrap().retain(|(t, _)| *t != id);
}
