//! Wall-clock watchdog for CPU-only loops inside the code under test. It is the single place a real clock
//! is read; it can only add a failure, and the failure is reported through a replay file.
//! What is timed is a single call into the code under test (`World::with`: open, an API call, the read accessors),
//! which takes milliseconds - never a whole run, whose length depends on the tier and on the load of the machine.
//! Two kinds of entries say what to report: a specific (case, fault) pair being evaluated (C10: `open` on a damaged
//! image, 20 s per call), and a seeded run (every property, 60 s per call), which is replayed by re-running the run
//! function on the same run seed.
use std::sync::Mutex;
use std::time::Instant;

use crate::case::Case;
use crate::fault::Fault;

enum What {
    Case { case: Case, fault: Fault },
    Run { run_seed: u64, index: usize, tier: String },
}

struct Armed {
    since: Instant,
    /// start of the call the thread is in (ms since EPOCH, 0 = not inside the code under test)
    call: std::sync::Arc<std::sync::atomic::AtomicU64>,
    limit_s: u64,
    prop: String,
    what: What,
}

static SLOTS: Mutex<Vec<(std::thread::ThreadId, Armed)>> = Mutex::new(Vec::new());
static STARTED: std::sync::Once = std::sync::Once::new();

pub const LIMIT_S: u64 = 20;
pub const RUN_LIMIT_S: u64 = 60;

static EPOCH: std::sync::OnceLock<Instant> = std::sync::OnceLock::new();
thread_local! {
    static CALL: std::sync::Arc<std::sync::atomic::AtomicU64> = std::sync::Arc::new(std::sync::atomic::AtomicU64::new(0));
}

fn now_ms() -> u64 {
    EPOCH.get_or_init(Instant::now).elapsed().as_millis() as u64 + 1
}

/// The calling thread enters / leaves the code under test.
pub fn call_enter() {
    CALL.with(|c| c.store(now_ms(), std::sync::atomic::Ordering::Relaxed));
}

pub fn call_exit() {
    CALL.with(|c| c.store(0, std::sync::atomic::Ordering::Relaxed));
}

fn out_root() -> String {
    std::env::var("VERIF_OUT").ok().filter(|s| !s.is_empty()).or_else(|| std::env::var("VERIF_ROOT").ok()).unwrap_or_else(|| "/verif".to_string())
}

fn start() {
    STARTED.call_once(|| {
        std::thread::spawn(|| loop {
            std::thread::sleep(std::time::Duration::from_secs(1));
            let slots = SLOTS.lock().unwrap();
            for (_, a) in slots.iter() {
                let started = a.call.load(std::sync::atomic::Ordering::Relaxed);
                if started != 0 && now_ms().saturating_sub(started) >= a.limit_s * 1000 {
                    let root = out_root();
                    let _ = std::fs::create_dir_all(format!("{root}/replays"));
                    let path = format!("{root}/replays/{}-watchdog-{}.json", a.prop, std::process::id());
                    let doc = match &a.what {
                        What::Case { case, fault } => {
                            let found = crate::check::Found { prop: a.prop.clone(), clause: "hang".to_string(), detail: format!("open did not return within {} s of wall-clock time", a.limit_s), case: case.clone(), fault: fault.clone() };
                            serde_json::json!({"property": a.prop, "clause": "hang", "detail": found.detail, "found": found})
                        }
                        What::Run { run_seed, index, tier } => serde_json::json!({
                            "property": a.prop, "clause": "hang",
                            "detail": format!("a call into the log did not return within {} s of wall-clock time (CPU-only loop: no file-system call was pending)", a.limit_s),
                            "hung_run": {"run_seed": run_seed.to_string(), "run_index": index, "tier": tier},
                        }),
                    };
                    let _ = std::fs::write(&path, serde_json::to_string_pretty(&doc).unwrap());
                    // the evidence file must not survive from an earlier run
                    let ev = serde_json::json!({"property_id": a.prop, "tier": "quick", "seed": 0, "level": "exploration", "coverage": {"evaluations": 0, "distinct_nontrivial": 0, "rule": "aborted by the wall-clock watchdog", "samples": [{"aborted": doc["detail"].as_str().unwrap_or(""), "replay": path}], "exhaustive": false}, "assumptions": [], "wall_s": a.since.elapsed().as_secs_f64(), "violations": 1});
                    let _ = std::fs::create_dir_all(format!("{root}/evidence"));
                    let _ = std::fs::write(format!("{root}/evidence/{}.json", a.prop), serde_json::to_string_pretty(&ev).unwrap());
                    println!("  failure: {}/hang: {}", a.prop, doc["detail"].as_str().unwrap_or(""));
                    println!("VIOLATION property={} replay={}", a.prop, path);
                    std::process::exit(1);
                }
            }
        });
    });
}

fn push(a: Armed) {
    start();
    SLOTS.lock().unwrap().push((std::thread::current().id(), a));
}

pub fn arm(prop: &str, case: &Case, fault: &Fault) {
    push(Armed { since: Instant::now(), call: CALL.with(|c| c.clone()), limit_s: LIMIT_S, prop: prop.to_string(), what: What::Case { case: case.clone(), fault: fault.clone() } });
}

/// Armed around every seeded run by `check::search` (and by the replay of a hung run).
pub fn arm_run(prop: &str, run_seed: u64, index: usize, tier: &str) {
    push(Armed { since: Instant::now(), call: CALL.with(|c| c.clone()), limit_s: RUN_LIMIT_S, prop: prop.to_string(), what: What::Run { run_seed, index, tier: tier.to_string() } });
}

/// Removes the innermost entry of the calling thread.
pub fn disarm() {
    let id = std::thread::current().id();
    let mut slots = SLOTS.lock().unwrap();
    if let Some(i) = slots.iter().rposition(|(t, _)| *t == id) {
        slots.remove(i);
    }
}

/// Disarms on drop (also when the run unwinds).
pub struct RunGuard;

impl RunGuard {
    pub fn new(prop: &str, run_seed: u64, index: usize, tier: &str) -> RunGuard {
        arm_run(prop, run_seed, index, tier);
        RunGuard
    }
}

impl Drop for RunGuard {
    fn drop(&mut self) {
        disarm();
    }
}
