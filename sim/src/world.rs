//! The system under test wired to the simulator: real `MultiRecordLog` over a `SimFs`.
use std::cell::{Cell, RefCell};
use std::panic::{catch_unwind, AssertUnwindSafe};
use std::path::Path;
use std::rc::Rc;

use mrecordlog::error::{AppendError, CreateQueueError, DeleteQueueError, ReadRecordError, TruncateError};
use mrecordlog::{MultiRecordLog, PersistAction, ResourceUsage};

use crate::model::{ErrKind, Knobs, Obs, Op, Outcome, Policy, QObs, Rec};
use crate::simfs::{Image, SharedFs, SimFs, BUDGET_PANIC, DIR};

thread_local! {
    pub static LAST_PANIC: RefCell<String> = const { RefCell::new(String::new()) };
    static IN_SUT: Cell<bool> = const { Cell::new(false) };
}

/// Installs a panic hook that records the message instead of printing it (panics inside
/// the code under test are verdict material, not noise). Harness panics still print.
pub fn install_panic_hook() {
    let default = std::panic::take_hook();
    std::panic::set_hook(Box::new(move |info| {
        if IN_SUT.with(|c| c.get()) {
            let msg = if let Some(s) = info.payload().downcast_ref::<&str>() {
                s.to_string()
            } else if let Some(s) = info.payload().downcast_ref::<String>() {
                s.clone()
            } else {
                "<non-string panic>".to_string()
            };
            let loc = info.location().map(|l| format!("{}:{}", l.file(), l.line())).unwrap_or_default();
            LAST_PANIC.with(|p| *p.borrow_mut() = format!("{msg} @ {loc}"));
        } else {
            default(info);
        }
    }));
}

pub fn install_panic_hook_once() {
    static ONCE: std::sync::Once = std::sync::Once::new();
    ONCE.call_once(install_panic_hook);
}

pub fn last_panic() -> String {
    LAST_PANIC.with(|p| p.borrow().clone())
}

#[derive(Clone, Debug, PartialEq, Eq)]
pub enum OpenFail {
    Io(String),
    Corruption,
    Panic(String),
    Hang,
}

pub struct World {
    pub fs: Rc<RefCell<SimFs>>,
    pub log: Option<MultiRecordLog>,
    pub policy: Policy,
    pub knobs: Knobs,
    pub clock_ns: u64,
    pub names: Vec<String>,
    /// fidelity check: mirror every fs call on the real file system (see twin.rs)
    pub twin: Option<Rc<RefCell<crate::twin::TwinFs>>>,
    /// set by `observe`: the bounded forms of `range` disagreed with `range(..)` (a conformance verdict for
    /// the driver; not a panic, and not a matter for the damage properties)
    pub range_forms: Option<String>,
}

impl World {
    pub fn new(image: &Image, names: Vec<String>, policy: Policy, knobs: Knobs) -> World {
        let mut fs = SimFs::new(image, knobs.fs_seed);
        fs.bug.short_write = knobs.short_write;
        fs.bug.short_read = knobs.short_read;
        fs.bug.eintr = knobs.eintr;
        World { fs: Rc::new(RefCell::new(fs)), log: None, policy, knobs, clock_ns: 1_000_000_000, names, twin: None, range_forms: None }
    }

    /// Runs `f` with this world's file system, clock, hash seed and knobs installed.
    fn with<T>(&mut self, f: impl FnOnce(&mut World) -> T) -> Result<T, String> {
        let backend: Box<dyn mrecordlog::verif::VerifFs> = match &self.twin {
            Some(t) => Box::new(crate::twin::SharedTwin(t.clone())),
            None => Box::new(SharedFs(self.fs.clone())),
        };
        let prev = mrecordlog::verif::install_fs(Some(backend));
        mrecordlog::verif::set_clock_nanos(Some(self.clock_ns));
        mrecordlog::verif::set_hash_seed(self.knobs.hash_seed);
        mrecordlog::verif::set_bufwriter_capacity(self.knobs.bufwriter_capacity);
        IN_SUT.with(|c| c.set(true));
        crate::watchdog::call_enter();
        let res = catch_unwind(AssertUnwindSafe(|| f(self)));
        crate::watchdog::call_exit();
        IN_SUT.with(|c| c.set(false));
        mrecordlog::verif::install_fs(prev);
        res.map_err(|_| last_panic())
    }

    /// Drops the current log (clean shutdown: BufWriter flushes on drop).
    pub fn close(&mut self) {
        if self.log.is_some() {
            let _ = self.with(|w| {
                w.log = None;
            });
            // if dropping panicked, make sure the log is gone anyway
            if self.log.is_some() {
                let log = self.log.take();
                let _ = self.with(move |_| drop(log));
            }
        }
    }

    /// Abandons the log without running its destructor's writes: the process died.
    /// (The BufWriter content is discarded by closing over a dead file system.)
    pub fn kill(&mut self) {
        if let Some(log) = self.log.take() {
            // Drop against a scratch fs so that flush-on-drop cannot reach the real image.
            let scratch = Rc::new(RefCell::new(SimFs::new(&Image::new(), 0)));
            let prev = mrecordlog::verif::install_fs(Some(Box::new(DeadFs(scratch))));
            IN_SUT.with(|c| c.set(true));
            let _ = catch_unwind(AssertUnwindSafe(move || drop(log)));
            IN_SUT.with(|c| c.set(false));
            mrecordlog::verif::install_fs(prev);
        }
    }

    pub fn open(&mut self) -> Result<(), OpenFail> {
        self.close();
        self.fs.borrow_mut().mark_incarnation();
        let policy = self.policy.to_real();
        let res = self.with(|_| MultiRecordLog::open_with_prefs(Path::new(DIR), policy));
        match res {
            Ok(Ok(log)) => {
                self.log = Some(log);
                Ok(())
            }
            Ok(Err(ReadRecordError::IoError(e))) => Err(OpenFail::Io(format!("{:?}/{}", e.kind(), e))),
            Ok(Err(ReadRecordError::Corruption)) => Err(OpenFail::Corruption),
            Err(msg) => {
                if msg.contains(BUDGET_PANIC) {
                    Err(OpenFail::Hang)
                } else {
                    Err(OpenFail::Panic(msg))
                }
            }
        }
    }

    pub fn set_op(&mut self, op_index: u32) {
        self.fs.borrow_mut().cur_op = op_index;
    }

    /// Executes one history op against the real log.
    pub fn exec(&mut self, op: &Op) -> Outcome {
        match op {
            Op::Restart { policy } => {
                if let Some(p) = policy {
                    self.policy = *p;
                }
                match self.open() {
                    Ok(()) => Outcome::Opened,
                    Err(OpenFail::Io(_)) => Outcome::Err(ErrKind::Io),
                    Err(OpenFail::Corruption) => Outcome::Err(ErrKind::Corruption),
                    Err(OpenFail::Panic(_)) => Outcome::Err(ErrKind::Panic),
                    Err(OpenFail::Hang) => Outcome::Err(ErrKind::Hang),
                }
            }
            Op::Tick { ns } => {
                self.clock_ns += ns;
                Outcome::Ticked
            }
            _ => {
                if self.log.is_none() {
                    return Outcome::Err(ErrKind::Io);
                }
                let names = self.names.clone();
                let res = self.with(|w| {
                    let log = w.log.as_mut().unwrap();
                    match op {
                        Op::Create { q } => match log.create_queue(&names[*q]) {
                            Ok(o) => Outcome::Created { wal: o.wal_bytes_written },
                            Err(CreateQueueError::AlreadyExists) => Outcome::Err(ErrKind::AlreadyExists),
                            Err(CreateQueueError::IoError(_)) => Outcome::Err(ErrKind::Io),
                        },
                        Op::Delete { q } => match log.delete_queue(&names[*q]) {
                            Ok(o) => Outcome::Deleted { wal: o.wal_bytes_written },
                            Err(DeleteQueueError::MissingQueue(_)) => Outcome::Err(ErrKind::MissingQueue),
                            Err(DeleteQueueError::IoError(_)) => Outcome::Err(ErrKind::Io),
                        },
                        Op::Append { q, pos, lens, uid } => {
                            let payloads: Vec<Vec<u8>> = lens
                                .iter()
                                .enumerate()
                                .map(|(i, &len)| crate::model::payload(*uid, i as u32, len as usize))
                                .collect();
                            let res = if payloads.len() == 1 && (*uid & 1) == 1 {
                                // exercise the single-record entry point too
                                log.append_record(&names[*q], *pos, &payloads[0][..])
                            } else if (*uid & 2) == 2 {
                                // payloads handed over as non-contiguous `Buf`s (three chunks each)
                                use bytes::Buf;
                                log.append_records(&names[*q], *pos, payloads.iter().map(|p| {
                                    let (a, rest) = p.split_at(p.len() / 3);
                                    let (b, c) = rest.split_at(rest.len() / 2);
                                    a.chain(b).chain(c)
                                }))
                            } else if (*uid & 4) == 4 {
                                // an iterator whose size hint is inexact (upper bound unknown to the callee)
                                let mut it = payloads.iter();
                                log.append_records(&names[*q], *pos, std::iter::from_fn(move || it.next().map(|p| &p[..])))
                            } else {
                                log.append_records(&names[*q], *pos, payloads.iter().map(|p| &p[..]))
                            };
                            match res {
                                Ok(o) => Outcome::Appended { last: o.last_position, wal: o.wal_bytes_written },
                                Err(AppendError::MissingQueue(_)) => Outcome::Err(ErrKind::MissingQueue),
                                Err(AppendError::Past) => Outcome::Err(ErrKind::Past),
                                Err(AppendError::IoError(_)) => Outcome::Err(ErrKind::Io),
                            }
                        }
                        Op::Truncate { q, upto } => match log.truncate(&names[*q], ..=*upto) {
                            Ok(o) => Outcome::Truncated { evicted: o.evicted_records, wal: o.wal_bytes_written },
                            Err(TruncateError::MissingQueue(_)) => Outcome::Err(ErrKind::MissingQueue),
                            Err(TruncateError::IoError(_)) => Outcome::Err(ErrKind::Io),
                        },
                        Op::Persist { fsync } => {
                            let action = if *fsync { PersistAction::FlushAndFsync } else { PersistAction::Flush };
                            match log.persist(action) {
                                Ok(()) => Outcome::Persisted,
                                Err(_) => Outcome::Err(ErrKind::Io),
                            }
                        }
                        Op::Restart { .. } | Op::Tick { .. } => unreachable!(),
                    }
                });
                match res {
                    Ok(o) => o,
                    Err(msg) => {
                        if msg.contains(BUDGET_PANIC) {
                            Outcome::Err(ErrKind::Hang)
                        } else {
                            Outcome::Err(ErrKind::Panic)
                        }
                    }
                }
            }
        }
    }

    /// Full observable state through the read accessors. `Err` = an accessor panicked.
    pub fn observe(&mut self) -> Result<Obs, String> {
        self.with(|w| {
            let log = w.log.as_ref().expect("observe without log");
            let mut names: Vec<String> = log.list_queues().map(|s| s.to_string()).collect();
            names.sort();
            let summary = log.summary();
            let mut obs = Obs::default();
            obs.summary_names = summary.queues.keys().cloned().collect();
            for name in &names {
                let recs: Vec<Rec> = log
                    .range(name, ..)
                    .expect("listed queue missing in range")
                    .map(|r| Rec::of(r.position, &r.payload))
                    .collect();
                let last_position = log.last_position(name).expect("listed queue missing in last_position");
                let last_record = log
                    .last_record(name)
                    .expect("listed queue missing in last_record")
                    .map(|r| Rec::of(r.position, &r.payload));
                let summary_end = summary.queues.get(name).and_then(|s| s.end);
                if !log.queue_exists(name) {
                    panic!("listed queue does not exist");
                }
                // the bounded forms of `range` must agree with the unbounded one (first / middle / last position)
                if !recs.is_empty() {
                    for p in [recs[0].pos, recs[recs.len() / 2].pos, recs[recs.len() - 1].pos] {
                        let from: Vec<u64> = log.range(name, p..).unwrap().map(|r| r.position).collect();
                        let upto: Vec<u64> = log.range(name, ..=p).unwrap().map(|r| r.position).collect();
                        let after: Vec<u64> = log.range(name, (std::ops::Bound::Excluded(p), std::ops::Bound::Unbounded)).unwrap().map(|r| r.position).collect();
                        let all: Vec<u64> = recs.iter().map(|r| r.pos).collect();
                        let want_from: Vec<u64> = all.iter().copied().filter(|x| *x >= p).collect();
                        let want_upto: Vec<u64> = all.iter().copied().filter(|x| *x <= p).collect();
                        let want_after: Vec<u64> = all.iter().copied().filter(|x| *x > p).collect();
                        if (from != want_from || upto != want_upto || after != want_after) && w.range_forms.is_none() {
                            w.range_forms = Some(format!("queue {name:?}: range({p}..) / range(..={p}) / range(>{p}) disagree with range(..): {} / {} / {} records instead of {} / {} / {}", from.len(), upto.len(), after.len(), want_from.len(), want_upto.len(), want_after.len()));
                        }
                    }
                }
                obs.queues.insert(name.clone(), QObs { recs, last_position, last_record, summary_end });
            }
            obs
        })
    }

    /// `Err` = the accessor panicked (a verdict for the caller to file, not a harness error).
    pub fn try_resource_usage(&mut self) -> Result<ResourceUsage, String> {
        self.with(|w| w.log.as_ref().unwrap().resource_usage())
    }

    /// As `try_resource_usage`; a panicking accessor yields a poisoned value that violates every accounting bound.
    pub fn resource_usage(&mut self) -> ResourceUsage {
        self.try_resource_usage().unwrap_or(ResourceUsage { memory_used_bytes: usize::MAX, memory_allocated_bytes: 0, disk_used_bytes: usize::MAX })
    }

    /// Runs an arbitrary closure over the log with the world installed.
    pub fn with_log<T>(&mut self, f: impl FnOnce(&mut MultiRecordLog) -> T) -> Result<T, String> {
        self.with(|w| f(w.log.as_mut().unwrap()))
    }

    pub fn image(&self) -> Image {
        self.fs.borrow().image()
    }

    pub fn trace_len(&self) -> usize {
        self.fs.borrow().trace.len()
    }
}

impl Drop for World {
    fn drop(&mut self) {
        self.close();
    }
}

/// File system of a dead process: accepts everything, keeps nothing.
struct DeadFs(Rc<RefCell<SimFs>>);

impl mrecordlog::verif::VerifFs for DeadFs {
    fn read_dir(&mut self, _: &Path) -> std::io::Result<Vec<std::io::Result<std::ffi::OsString>>> {
        Ok(Vec::new())
    }
    fn file_type(&mut self, _: &Path, _: &std::ffi::OsString) -> std::io::Result<mrecordlog::verif::EntryKind> {
        Ok(mrecordlog::verif::EntryKind::Other)
    }
    fn open(&mut self, _: &Path, _: mrecordlog::verif::OpenFlags) -> std::io::Result<u64> {
        Ok(0)
    }
    fn set_len(&mut self, _: u64, _: u64) -> std::io::Result<()> {
        Ok(())
    }
    fn seek(&mut self, _: u64, _: std::io::SeekFrom) -> std::io::Result<u64> {
        Ok(0)
    }
    fn read(&mut self, _: u64, _: &mut [u8]) -> std::io::Result<usize> {
        Ok(0)
    }
    fn write(&mut self, _: u64, buf: &[u8]) -> std::io::Result<usize> {
        Ok(buf.len())
    }
    fn sync_data(&mut self, _: u64) -> std::io::Result<()> {
        Ok(())
    }
    fn close(&mut self, _: u64) {}
    fn remove_file(&mut self, _: &Path) -> std::io::Result<()> {
        Ok(())
    }
}
