#!/usr/bin/env python3
"""Confirms a seeded change produced by a sub-agent, in its scratch worktree (never in /repo):
   1. patch applies and the crate builds; 2. the unedited existing suite passes with it; 3. the demo fails with it;
   4. the demo passes without it.   usage: confirm_seed.py <worktree> <out_dir e.g. /tmp/wt/C05/out/C05-1>
Writes <out_dir>/confirm.json."""
import json, os, re, subprocess, sys


def sh(cmd, cwd):
    r = subprocess.run(cmd, shell=True, cwd=cwd, capture_output=True, text=True)
    return r.returncode, (r.stdout + r.stderr)


def main():
    wt, out = sys.argv[1], sys.argv[2]
    res = {"worktree": wt, "out": out}
    meta = json.load(open(os.path.join(out, "meta.json")))
    demo_cmd = meta.get("demo_cmd", "")
    m = re.search(r"(demo_\w+)", demo_cmd)
    mod = m.group(1) if m else "demo_" + os.path.basename(out).replace("-", "_")
    sh("git checkout -- . && git clean -fdq src", wt)
    rc, o = sh(f"git apply --check {out}/patch.diff && git apply {out}/patch.diff", wt)
    res["patch_applies"] = rc == 0
    if rc != 0:
        res["error"] = o[-500:]
        json.dump(res, open(os.path.join(out, "confirm.json"), "w"), indent=1); print(res); return
    res["files_touched"] = sh("git diff --stat | tail -1", wt)[1].strip()
    res["touches_verif_hooks"] = "verif.rs" in sh("git diff --name-only", wt)[1]
    rc, o = sh("cargo test --workspace --offline --no-fail-fast 2>&1 | grep -E '^test result|FAILED|failed' | head -20", wt)
    passed = sum(int(x) for x in re.findall(r"test result: ok\. (\d+) passed", o))
    failed = sum(int(x) for x in re.findall(r"(\d+) failed", o))
    res["suite_with_change"] = {"passed": passed, "failed": failed}
    # install demo
    lib = os.path.join(wt, "src/lib.rs")
    lib_src = open(lib).read()
    demo_src = open(os.path.join(out, "demo.rs")).read()
    open(os.path.join(wt, f"src/{mod}.rs"), "w").write(demo_src)
    verif_cfg = "mrecordlog_verif" in demo_cmd
    gate = "#[cfg(all(test, mrecordlog_verif))]" if verif_cfg else "#[cfg(test)]"
    open(lib, "w").write(lib_src + f"\n{gate}\n#[allow(non_snake_case)]\nmod {mod};\n")
    cargo = f'RUSTFLAGS="--cfg mrecordlog_verif" cargo test --offline --lib --target-dir {wt}/target/verif' if verif_cfg else "cargo test --offline --lib"
    res["demo_needs_verif_cfg"] = verif_cfg
    rc, o = sh(f"{cargo} {mod} 2>&1 | grep -E '^test result|panicked|error(\\[|:)' | head -8", wt)
    res["demo_with_change"] = o.strip()[-600:]
    with_fails = bool(re.search(r"test result: FAILED", o)) and not re.search(r"error\[E|could not compile", o)
    # without the change
    sh(f"git apply -R {out}/patch.diff", wt)
    rc, o = sh(f"{cargo} {mod} 2>&1 | grep -E '^test result|panicked|error(\\[|:)' | head -8", wt)
    res["demo_without_change"] = o.strip()[-400:]
    without_passes = bool(re.search(r"test result: ok\. [1-9]\d* passed; 0 failed", o))
    sh("git checkout -- . && git clean -fdq src", wt)
    res["confirmed"] = bool(res["patch_applies"] and passed >= 66 and failed == 0 and with_fails and without_passes and not res["touches_verif_hooks"])
    json.dump(res, open(os.path.join(out, "confirm.json"), "w"), indent=1)
    print(json.dumps({k: res[k] for k in ("out", "confirmed", "suite_with_change")}))


if __name__ == "__main__":
    main()
