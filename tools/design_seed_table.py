#!/usr/bin/env python3
"""Rewrites the seed table in DESIGN.md section 10.5 from /verif/seeded/*/ (between the markers)."""
import json, os, re
root='/verif/seeded'
rows=[]; n=0; caught=0
for sid in sorted(os.listdir(root)):
    d=os.path.join(root,sid)
    if not os.path.isdir(d) or not os.path.exists(os.path.join(d,'detection.json')): continue
    meta=json.load(open(os.path.join(d,'meta.json'))); det=json.load(open(os.path.join(d,'detection.json')))
    tgt=meta.get('property',sid.split('-')[0]); t=det.get(tgt,{})
    cls='; '.join(c.split(':')[0] for c in t.get('classes',[])[:2])
    summ=re.sub(r'\s+',' ',meta.get('summary',''))[:140].replace('|','/')
    n+=1; caught+= 1 if t.get('caught') else 0
    rows.append(f"| {sid} | {summ} | {'yes' if t.get('caught') else 'NO'} | {cls} |")
p='/verif/DESIGN.md'; s=open(p).read()
a=s.index('<!-- SEED-TABLE-BEGIN -->'); b=s.index('<!-- SEED-TABLE-END -->')
hdr=f"<!-- SEED-TABLE-BEGIN -->\n{caught} of {n} seeded changes are caught by the quick check of the property they were written against (current tree, last full re-run).\n\n| seed | change (agent's summary) | caught | failure class |\n|---|---|---|---|\n"
s=s[:a]+hdr+"\n".join(rows)+"\n"+s[b:]
open(p,'w').write(s)
print(caught, n)
