#!/usr/bin/env python3
"""Writes /verif/MANIFEST.json from the table below (kept in one place so it stays valid)."""
import json, os, subprocess

ROOT = os.path.dirname(os.path.dirname(os.path.abspath(__file__)))

CHECKS = {
    # id: (level, technique, design_ref, text, note)
    "C01": ("exploration", "deterministic simulation: seeded histories with clean restarts on a simulated FS, three-way oracle against a reference model",
            "DESIGN.md §5 C01", "Seeded search over histories x restart points; at every restart the state after open must equal the state the log showed before the drop (the driver does not stop where a live call departs from the reference model - that is C05's finding - it re-bases the model on what the log shows). Evidence, not proof.",
            "SimFs models the kernel file system; 4-block WAL files (cfg(test) value); payload digests compared (64-bit hash of bytes)."),
    "C05": ("exploration", "deterministic simulation: lock-step refinement check against a sequential reference model after every call",
            "DESIGN.md §5 C05", "Every call's outcome and the full observable state are compared with an executable sequential model, plus PRNG range-bound probes; no fault involved (fault-free configuration of the simulator).",
            "Reference model is the specification oracle; SimFs/deterministic hasher as above."),
    "C06": ("exploration", "deterministic simulation: directory-listing invariant checked from the SimFs effect trace after every truncate/delete/open",
            "DESIGN.md §5 C06", "Roll-over heavy seeded histories; the SimFs listing and disk_used_bytes are compared with a bound derived independently from the write cursor and the model's retained records; every third history is also crashed at sampled points and the same upper bound is required of the recovered log (replay attribution computed by an independent WAL parser); one run in eight has a directory/symlink squatting the name of a next WAL file (failed roll-over, calls go on), and a 'long pin' scenario releases 17-22 files in one call.",
            "Verdict on fault-free histories only; attribution of a record = file holding the write cursor when its append began."),
    "C15": ("exploration", "deterministic simulation: wal_bytes_written compared with Write effects recorded by the simulated FS",
            "DESIGN.md §5 C15", "Per call (Always policies) or per flush point (others) the reported byte counts must equal the bytes that reached WAL files, and the running sum must sit on the FS write cursor.",
            "Bytes written by open's own GC are excluded (documented by the crate)."),
    "C16": ("exploration", "deterministic simulation: accounting invariant monitored after every call of simulated histories",
            "DESIGN.md §5 C16", "State invariant (bounds on memory_used_bytes relative to the model's retained data) monitored during seeded histories incl. restarts, and on logs recovered from damaged images relative to the state they show. Weakest fit for the technique: no fault/time/IO enters the property itself.",
            "Per-record overhead bound 64 B (today 24 B)."),
    "C17": ("exploration", "deterministic simulation: foreign directory entries injected into the simulated FS, effect-trace oracle",
            "DESIGN.md §5 C17", "Directory pre-populated with near-miss names, dirs and symlinks (also named like WAL files, inside and above the live number range); every FS effect must target a wal-<20 digits> regular file; foreign entries stay byte-identical; the same history without the foreign entries must behave identically; WAL files renumbered with gaps must open to the same state and continue after the highest number.",
            "SimFs file_type semantics (no symlink following) as std::fs::DirEntry::file_type on Linux."),
    "C02": ("fault_enumeration", "deterministic simulation with crash injection: disk images rebuilt from the effect trace at every crash point, real recovery, allowed-state oracle, continuation and second crash",
            "DESIGN.md §5 C02", "Inside each seeded history the crash points (effect boundaries, torn-write offsets) are enumerated (completely in the thorough tier, seeded sample that always contains create/set_len/unlink boundaries in the quick tier); across histories the search is seeded sampling.",
            "Process-crash model (effects reach the OS in program order). Crash images come from an uninterrupted execution's effect trace."),
    "C03": ("fault_enumeration", "deterministic simulation with crash and power-loss injection: persisted-superset oracle at every crash point under every persist policy",
            "DESIGN.md §5 C03", "Every crash boundary of each seeded history under two loss models (OS view; durable view + seeded subset of unsynced effects); the recovered state must contain everything persisted at the last obliging call and invent nothing; sampled points continue on the recovered log and crash again after every further call.",
            "Power-loss model: unsynced file data lost per 512-byte sector, set_len independently, directory operations as a prefix of program order; fdatasync persists content+length, directory fsync persists names."),
    "C04": ("exploration", "deterministic simulation: model-independent high-water-mark monitor over histories, restarts and crash recoveries",
            "DESIGN.md §5 C04", "Idle-queue histories with roll-over and GC; positions returned by appends are compared with a high-water mark kept outside the model, live, across restarts and after recovery from sampled crash points.",
            "Flush-per-operation policies, process-crash model (as the statement says)."),
    "C11": ("fault_enumeration", "deterministic simulation with I/O-error injection at every recovery file-system call",
            "DESIGN.md §5 C11", "For each seeded WAL image (a third of them damaged first, so that the reader's resync paths run) every readdir/file_type/open/seek/read call of recovery is failed (transient and persistent, several errnos, partial reads); open must return Err(IoError) within a step budget.",
            "Step budget (fault-free calls + 50) is the deterministic definition of 'promptly'; write-path errors not injected."),
    "C08": ("exploration", "deterministic simulation with storage-damage injection between incarnations: in-place overwrites aimed by an independent WAL parser",
            "DESIGN.md §5 C08", "Seeded histories x 1-4 aimed or uniform in-place overwrites of the cleanly dropped image; every recovered record must be one that was appended to that queue, positions strictly increasing.",
            "Up to a CRC-32 collision; membership judged on (position, 64-bit payload digest, length). Known findings K1/K2 (payloads that embed a CRC-valid frame, reached through the unchecksummed length field or a stale tail) are reported as KNOWN-FINDING lines, any other route to an embedded frame as a VIOLATION."),
    "C09": ("exploration", "deterministic simulation with storage-damage injection: single-frame payload/CRC damage, frames enumerated per image",
            "DESIGN.md §5 C09", "Per seeded image, frames found by the independent parser are damaged one at a time (all frames x 6 variants in the thorough tier); open must succeed and every retained record whose append was not hit must be intact and readable through the bounded range forms; un-hit delete/truncate entries must still take effect (nothing deleted or truncated comes back unless the hit entry is that control entry).",
            "Frame layout from the independent parser; extra records are violations unless the hit entry is a truncate/delete/position entry of that queue."),
    "C10": ("exploration", "deterministic simulation with storage-damage injection: structural damage, PRNG and forged images; panic, step-budget, watchdog and heap oracles",
            "DESIGN.md §5 C10", "Three generator classes (damaged valid images, PRNG bytes / shuffled valid frames, CRC-valid adversarial entries); open must not panic, exceed the fs step budget or a 20 s watchdog, or allocate more than 16 x image + 1 MiB; accessors of an Ok log must not panic.",
            "simctl is built with overflow checks and debug assertions: arithmetic overflow counts as a panic."),
    "C12": ("fault_enumeration", "deterministic simulation with crash, power-loss and frame-damage injection inside batch appends; batch-atomicity oracle",
            "DESIGN.md §5 C12", "Batch-heavy seeded histories; crash points as C02 (plus power loss under Always(FlushAndFsync)) and single-frame payload/header damage of every frame of batch entries; each batch must be recovered whole, not at all, or minus a truncated leading part.",
            "As C02 and C08; batches identified by the unique op id inside every payload."),
    "C07": ("exploration", "deterministic simulation (fault-free configuration): directed alignment grid over simulated WAL files, independent WAL parser as oracle",
            "DESIGN.md §5 C07", "Cursor-steered directed histories cover the complete (bytes left before) x (bytes left after) x (blocks spanned) x (what follows, 7 kinds incl. a torn tail left by a process death inside the next entry) grid in the quick tier already, plus random cells; the SimFs image is parsed by independent code and compared with what was written; restart round-trip and end-of-log cursor agreement.",
            "Pure input-space property: no fault injected; the simulator contributes simulated files (roll-over mid-entry), restart at the same alignment, short-write/EINTR buggify."),
    "C13": ("exploration", "deterministic simulation: per-call effect-trace oracle plus differential run (history with / without rejected and no-op calls) on simulated disks",
            "DESIGN.md §5 C13", "Rejected / no-op calls of 7 shapes are inserted into seeded histories; each must perform no mutating FS effect and report 0 bytes; aligned calls of both runs must produce identical outcomes, states and write effects, and byte-identical final images.",
            "Read-only / sync effects during a rejected call are tolerated."),
    "C14": ("exploration", "deterministic simulation: one history executed under five persist policies with a simulated clock, call-by-call comparison",
            "DESIGN.md §5 C14", "Same explicit call sequence (with clock ticks and explicit persists) under DoNothing, OnDelay (4 intervals x 2 actions), Always(Flush), Always(FlushAndFsync); executions must agree on every outcome (errors included) and observable state; one run in six has a directory/symlink squatting the name of a next WAL file, so that a roll-over fails under every policy alike and the calls go on.",
            "Simulated Instant behind the H4 hook; wal_bytes_written / image equality are statistics only."),
    "C18": ("exploration", "deterministic simulation: metamorphic projection (history vs history restricted to one queue) on separate simulated disks, live and after injected crashes",
            "DESIGN.md §5 C18", "For every queue of every seeded history the projection runs on a fresh simulated disk; outcomes and the queue's observable content must agree at corresponding points; crash variant recovers from crashes inside calls addressed to other queues and keeps using the queue on the recovered log and on the never-crashed projection.",
            "No reference model involved in the oracle; process-crash model in the crash variant."),
}

NOT_YET = {
}

ALL = ["C%02d" % i for i in range(1, 19)]


def main():
    commits = subprocess.run(["git", "-C", "/repo", "log", "--format=%H %s", "--grep", "^verif hook"], capture_output=True, text=True).stdout.strip().splitlines()
    checks = []
    for pid in ALL:
        if pid not in CHECKS:
            continue
        level, technique, ref, text, note = CHECKS[pid]
        checks.append({
            "property_id": pid,
            "quick_cmd": f"bin/check {pid} --tier quick",
            "thorough_cmd": f"bin/check {pid} --tier thorough",
            "evidence_file": f"/verif/evidence/{pid}.json",
            "replay_cmd_template": f"bin/check {pid} --replay {{path}}",
            "engine": "simctl",
            "level_claimed": {"category": level, "text": text, "design_ref": ref},
            "level_note": note,
            "technique": technique,
        })
    na = []
    for pid in ALL:
        if pid not in CHECKS:
            na.append({"property_id": pid, "reason": NOT_YET.get(pid, "not claimed yet: its simulation engine is still being built (see DESIGN.md §9 build order)")})
    manifest = {
        "version": 1,
        "setup_cmd": "cd sim && CARGO_NET_OFFLINE=true cargo build --release --offline",
        "hooks": {
            "guard": "mrecordlog_verif",
            "enable": "RUSTFLAGS=--cfg mrecordlog_verif (set in /verif/sim/.cargo/config.toml; simctl path-depends on /repo)",
            "baseline_off_cmd": "cd /repo && cargo test --workspace --no-fail-fast --offline",
            "source_commits": [c.split()[0] for c in reversed(commits)],
            "add_only": False,
        },
        "engines": [{
            "name": "simctl", "path": "/verif/sim",
            "serves_properties": sorted(CHECKS.keys()),
            "kind_free_text": "deterministic simulator: real mrecordlog over a simulated file system (SimFs), simulated clock and seeded hasher; seeded history generator, reference model, effect-trace crash/power-loss image builder, damage and I/O-error injectors, minimiser, replay",
        }],
        "checks": checks,
        "notes": "Hooks are not add-only: H2 rewrites two `use` lines and three call sites in src/rolling/directory.rs to cfg-switched aliases, H3 changes two cfg attributes in src/rolling/mod.rs, H4 one `use` in src/persist_policy.rs, H5 the HashMap type in src/mem/queues.rs; H1 adds src/verif.rs, a cfg-gated `pub mod verif` and a [lints.rust] check-cfg entry in Cargo.toml; H1b extends src/verif.rs only (more of the std::fs surface: OpenOptions create/truncate/append, File::sync_all/metadata, rename). With the guard off the token stream is unchanged. Nine genuine defects found by these checks were repaired by unguarded `fix:` commits in /repo (listed as `fixed:` in known_findings.json, failing replays in /verif/findings/); two are recorded, not repaired, as known findings of C08 (K1/K2 in DESIGN.md §10.3, fingerprints `C08/embedded-frame-via-trusted-length` and `C08/embedded-frame-via-stale-tail`): C08's checks print a KNOWN-FINDING line for each and exit 0. Exit codes of every check: 0 held / known findings only, 1 VIOLATION (replay reproduced in a fresh process), 2 harness or build error. VERIF_SEED seeds everything (default 20260925).",
        "not_applicable": na,
    }
    with open(os.path.join(ROOT, "MANIFEST.json"), "w") as f:
        json.dump(manifest, f, indent=1)
        f.write("\n")


if __name__ == "__main__":
    main()
