#!/usr/bin/env python3
"""Sensitivity catalogue: small source mutations of /repo, each tagged with the checks that must catch it.

usage: tools/mutants.py [name-substring ...]     (env MUT_SCALE: VERIF_SCALE passed to the checks, default 0.3)
Applies each mutation to /repo's working tree (string replacement), runs the tagged quick checks, reverts with
`git -C /repo checkout -- .`, and writes /verif/mutants/RESULTS.md. /repo is never left modified.
"""
import os, subprocess, sys, time, json

# evidence and replays of runs against modified trees never go to /verif/evidence
os.environ["VERIF_OUT"] = "/tmp/verif_modified_tree_out"
os.makedirs(os.environ["VERIF_OUT"], exist_ok=True)

REPO = "/repo"
ROOT = os.path.dirname(os.path.dirname(os.path.abspath(__file__)))

M = [
  # name, file, old, new, [properties expected to catch]
  ("gc-no-fsync-before-unlink", "src/multi_record_log.rs",
   "            self.persist(PersistAction::FlushAndFsync)?;\n            self.record_log_writer.directory().gc()?;",
   "            self.record_log_writer.directory().gc()?;", ["C03"]),
  ("gc-flush-only-before-unlink", "src/multi_record_log.rs",
   "            self.persist(PersistAction::FlushAndFsync)?;\n            self.record_log_writer.directory().gc()?;",
   "            self.persist(PersistAction::Flush)?;\n            self.record_log_writer.directory().gc()?;", ["C03"]),
  ("gc-skip-empty-queue-positions", "src/multi_record_log.rs",
   "            num_bytes_written += self.record_empty_queues_position()?;",
   "            num_bytes_written += 0;", ["C01", "C04"]),
  ("gc-unlink-before-positions", "src/multi_record_log.rs",
   "            num_bytes_written += self.record_empty_queues_position()?;\n",
   "            self.record_log_writer.directory().gc()?;\n            num_bytes_written += self.record_empty_queues_position()?;\n", ["C02", "C04"]),
  ("gc-never-deletes", "src/rolling/directory.rs",
   "        self.files.count() >= 2 && self.files.first().can_be_deleted()",
   "        self.files.count() >= 3 && self.files.first().can_be_deleted()", ["C06"]),
  ("truncate-keeps-file-token", "src/mem/queue.rs",
   "        self.record_metas.drain(..first_record_to_keep);",
   "        let kept_token = self.record_metas[..first_record_to_keep].iter().rev().find_map(|m| m.file_number.clone());\n        self.record_metas.drain(..first_record_to_keep);\n        if let (Some(tok), Some(first)) = (kept_token, self.record_metas.first_mut()) { if first.file_number.is_none() { first.file_number = Some(tok); } }", ["C06"]),
  ("truncate-head-off-by-one", "src/mem/queue.rs",
   "        if self.start_position > truncate_up_to_pos {\n            return 0;\n        }",
   "        if self.start_position >= truncate_up_to_pos {\n            return 0;\n        }", ["C05"]),
  ("append-retry-check-wrong", "src/multi_record_log.rs",
   "            if position.checked_add(1) == Some(next_position) {",
   "            if position == next_position && position > 40 {", ["C05"]),
  ("append-past-check-dropped", "src/multi_record_log.rs",
   "            } else if position < next_position {\n                return Err(AppendError::Past);\n            }",
   "            } else if position + 3 < next_position {\n                return Err(AppendError::Past);\n            }", ["C05"]),
  ("rolling-buffer-wrap-branch", "src/mem/rolling_buffer.rs",
   "        if end < left_part_of_queue.len() {",
   "        if end <= left_part_of_queue.len() + 1 && start < left_part_of_queue.len() {", ["C05"]),
  ("reader-within-record-not-reset", "src/recordlog/reader.rs",
   "                Err(ReadFrameError::Corruption) => {\n                    self.within_record = false;",
   "                Err(ReadFrameError::Corruption) => {", ["C08", "C12"]),
  ("crc-not-checked-for-middle-frames", "src/frame/reader.rs",
   "        if !header.check(frame_payload) {",
   "        if header.frame_type() != FrameType::Middle && !header.check(frame_payload) {", ["C08", "C12"]),
  ("crc-mismatch-skips-block", "src/frame/reader.rs",
   "        if !header.check(frame_payload) {",
   "        if !header.check(frame_payload) {\n            self.block_corrupted = true;", ["C09"]),
  ("padding-threshold-off-by-one", "src/frame/writer.rs",
   "        if num_bytes_remaining_in_block < HEADER_LEN {\n            let zero_bytes",
   "        if num_bytes_remaining_in_block <= HEADER_LEN {\n            let zero_bytes", ["C07"]),
  ("rollover-comparison-off-by-one", "src/rolling/directory.rs",
   "        if self.offset + buf.len() > FILE_NUM_BYTES {",
   "        if self.offset + buf.len() >= FILE_NUM_BYTES {", ["C07", "C01"]),
  ("rollover-no-fsync-of-old-file", "src/rolling/directory.rs",
   "            self.file.flush()?;\n            self.file.get_ref().sync_data()?;\n            self.directory.sync_directory()?;\n\n            let (file_number, file) =",
   "            self.file.flush()?;\n\n            let (file_number, file) =", ["C03"]),
  ("persist-policy-before-write", "src/multi_record_log.rs",
   "        let num_bytes_written = self.record_log_writer.write_record(record)?;\n        self.persist_on_policy()?;\n\n        let mem_queue",
   "        self.persist_on_policy()?;\n        let num_bytes_written = self.record_log_writer.write_record(record)?;\n\n        let mem_queue", ["C02", "C03"]),
  ("create-queue-flush-only", "src/multi_record_log.rs",
   "        let num_bytes_written = self.record_log_writer.write_record(record)?;\n        self.persist(PersistAction::FlushAndFsync)?;\n        self.in_mem_queues.create_queue(queue)?;",
   "        let num_bytes_written = self.record_log_writer.write_record(record)?;\n        self.persist(PersistAction::Flush)?;\n        self.in_mem_queues.create_queue(queue)?;", ["C03"]),
  ("create-existing-writes-entry-first", "src/multi_record_log.rs",
   "        if self.queue_exists(queue) {\n            return Err(CreateQueueError::AlreadyExists);\n        }\n        let record = MultiPlexedRecord::RecordPosition { queue, position: 0 };\n        let num_bytes_written = self.record_log_writer.write_record(record)?;",
   "        let record = MultiPlexedRecord::RecordPosition { queue, position: 0 };\n        let exists = self.queue_exists(queue);\n        let num_bytes_written = if exists && queue.len() > 4 { self.record_log_writer.write_record(MultiPlexedRecord::Truncate { queue, truncate_range: ..=0 })? } else { 0 };\n        if exists {\n            return Err(CreateQueueError::AlreadyExists);\n        }\n        let num_bytes_written = num_bytes_written + self.record_log_writer.write_record(record)?;", ["C13"]),
  ("filename-19-digits-accepted", "src/rolling/directory.rs",
   "    if file_name.len() != 24 {\n        return None;\n    }",
   "    if file_name.len() != 24 && file_name.len() != 23 {\n        return None;\n    }", ["C17"]),
  ("dirs-and-symlinks-not-skipped", "src/rolling/directory.rs",
   "            if !dir_entry.file_type()?.is_file() {\n                continue;\n            }",
   "            let _ = dir_entry.file_type()?;", ["C17"]),
  ("wal-bytes-without-padding", "src/frame/writer.rs",
   "                .write(&zero_bytes[..num_bytes_remaining_in_block])?;\n            num_bytes_written += num_bytes_remaining_in_block;",
   "                .write(&zero_bytes[..num_bytes_remaining_in_block])?;", ["C15"]),
  ("wal-bytes-without-gc-bytes", "src/multi_record_log.rs",
   "        num_bytes_written += self.run_gc_if_necessary()?;\n        self.persist_on_policy()?;",
   "        let _ = self.run_gc_if_necessary()?;\n        self.persist_on_policy()?;", ["C15"]),
  ("memory-size-without-names", "src/mem/queues.rs",
   "            .map(|(name, queue)| name.len() + queue.size())",
   "            .map(|(name, queue)| (name.len() & 0xff) + queue.size())", ["C16"]),
  ("memory-size-meta-miscount", "src/mem/queue.rs",
   "        self.concatenated_records.len()\n            + self.record_metas.len() * std::mem::size_of::<RecordMeta>()",
   "        self.concatenated_records.len()\n            + self.record_metas.capacity() * std::mem::size_of::<RecordMeta>() * 4", ["C16"]),
  ("replay-ignores-delete-queue", "src/multi_record_log.rs",
   "                        let _ = in_mem_queues.delete_queue(queue);",
   "                        if queue.len() < 3 { let _ = in_mem_queues.delete_queue(queue); }", ["C01"]),
  ("ack-position-never-resets", "src/mem/queues.rs",
   "            if !queue.is_empty() || queue.next_position() != next_position {",
   "            if queue.is_empty() && queue.next_position() != next_position {", ["C09"]),
  ("future-truncate-skipped-under-donothing", "src/multi_record_log.rs",
   "            return Err(TruncateError::MissingQueue(queue.to_string()));\n        }",
   "            return Err(TruncateError::MissingQueue(queue.to_string()));\n        }\n        if matches!(self.next_persist, PersistState::NoOp) && self.in_mem_queues.next_position(queue).map(|n| n <= truncate_range.end).unwrap_or(false) {\n            return Ok(TruncateOutcome { evicted_records: 0, wal_bytes_written: 0 });\n        }", ["C14"]),
  ("open-swallows-io-error-again", "src/multi_record_log.rs",
   "                Err(ReadRecordError::IoError(io_err)) => {\n                    return Err(ReadRecordError::IoError(io_err));\n                }",
   "                Err(ReadRecordError::IoError(_io_err)) => {\n                    break;\n                }", ["C11"]),
  ("ensure-file-len-removed", "src/rolling/directory.rs",
   "            ensure_file_len(dir_path, files.last())?;\n", "", ["C02"]),
  ("truncate-affects-other-queue", "src/mem/queues.rs",
   "        if let Ok(queue) = self.get_queue_mut(queue) {\n            Some(queue.truncate_head(position))",
   "        if position.end % 8 == 5 { for q in self.queues.values_mut() { q.truncate_head(position); } }\n        if let Ok(queue) = self.get_queue_mut(queue) {\n            Some(queue.truncate_head(position))", ["C18"]),
  ("unbounded-alloc-on-length-field", "src/recordlog/reader.rs",
   "                    if frame_type.is_first_frame_of_record() {\n                        self.within_record = true;\n                        self.record_buffer.clear();",
   "                    if frame_type.is_first_frame_of_record() {\n                        self.within_record = true;\n                        self.record_buffer.clear();\n                        if frame_payload.len() >= 9 { let hint = u64::from_le_bytes(frame_payload[1..9].try_into().unwrap()) as usize; if hint > (1 << 20) { self.record_buffer.reserve(hint.min(1 << 31)); } }", ["C10"]),
]


def sh(cmd, **kw):
    return subprocess.run(cmd, shell=True, capture_output=True, text=True, **kw)


def main():
    want = sys.argv[1:]
    scale = os.environ.get("MUT_SCALE", "0.3")
    if sh(f"git -C {REPO} status --porcelain --untracked-files=no").stdout.strip():
        print("refusing: /repo has uncommitted changes"); sys.exit(2)
    rows = []
    for name, path, old, new, props in M:
        if want and not any(w in name for w in want):
            continue
        full = os.path.join(REPO, path)
        src = open(full).read()
        if src.count(old) != 1:
            rows.append((name, path, "-", "MUTATION DOES NOT APPLY (count=%d)" % src.count(old), 0)); print(rows[-1]); continue
        try:
            open(full, "w").write(src.replace(old, new, 1))
            for p in props:
                t0 = time.time()
                r = sh(f"VERIF_SCALE={scale} {ROOT}/bin/check {p} --tier quick", cwd=ROOT)
                out = r.stdout + r.stderr
                if r.returncode == 1 and "VIOLATION property=" in out:
                    cls = [l.strip() for l in out.splitlines() if l.strip().startswith("failure class")]
                    verdict = "caught: " + "; ".join(c.replace("failure class ", "") for c in cls[:3])
                elif r.returncode == 0:
                    verdict = "MISSED"
                else:
                    verdict = "harness/build error: " + (out.strip().splitlines()[-1] if out.strip() else "")[:160]
                rows.append((name, path, p, verdict, time.time() - t0)); print(rows[-1], flush=True)
        finally:
            sh(f"git -C {REPO} checkout -- .")
            sh(f"rm -f {os.environ['VERIF_OUT']}/replays/*.json")
    os.makedirs(os.path.join(ROOT, "mutants"), exist_ok=True)
    with open(os.path.join(ROOT, "mutants", "RESULTS.md"), "a" if want else "w") as f:
        if not want:
            f.write("# Sensitivity catalogue (tools/mutants.py)\n\nEach mutation is applied to /repo's working tree, the tagged quick check is run (VERIF_SCALE=%s), and the tree is reverted.\n\n| mutation | file | check | result | s |\n|---|---|---|---|---|\n" % scale)
        for name, path, p, verdict, dt in rows:
            f.write(f"| {name} | {path} | {p} | {verdict} | {dt:.0f} |\n")
    json.dump([{"name": n, "file": p, "old": o, "new": nw, "expected": pr} for n, p, o, nw, pr in M], open(os.path.join(ROOT, "mutants", "catalogue.json"), "w"), indent=1)


if __name__ == "__main__":
    main()
