#!/usr/bin/env python3
"""Runs the registered quick checks against seeded changes (never committed to /repo).

usage: tools/run_seeded.py import <worktree-out-dir>...     copy a confirmed seed into /verif/seeded/<id>/

       tools/run_seeded.py run [--all-checks | --checks=C01,C09] <id>...   apply to /repo, run checks (default: the seed's own property), revert
       tools/run_seeded.py table                                 rewrite /verif/seeded/RESULTS.md
"""
import json, os, shutil, subprocess, sys, time

# evidence and replays of runs against modified trees never go to /verif/evidence
os.environ["VERIF_OUT"] = "/tmp/verif_modified_tree_out"
os.makedirs(os.environ["VERIF_OUT"], exist_ok=True)

ROOT = os.path.dirname(os.path.dirname(os.path.abspath(__file__)))
SEEDED = os.path.join(ROOT, "seeded")
# through `vp run --with-repo` the checks build against (and the seeds are applied to) the snapshot of /repo's HEAD
REPO = os.environ.get("VP_RUN_REPO") or "/repo"
if REPO != "/repo":
    subprocess.run(["sed", "-i", f's|path = "/repo"|path = "{REPO}"|', os.path.join(ROOT, "sim/Cargo.toml")])
ALL = ["C%02d" % i for i in range(1, 19)]


def sh(cmd, cwd=None):
    r = subprocess.run(cmd, shell=True, cwd=cwd, capture_output=True, text=True)
    return r.returncode, r.stdout + r.stderr


def do_import(dirs):
    for d in dirs:
        sid = os.path.basename(d.rstrip("/"))
        conf = os.path.join(d, "confirm.json")
        if not os.path.exists(conf) or not json.load(open(conf)).get("confirmed"):
            print(f"{sid}: not confirmed, skipped"); continue
        dst = os.path.join(SEEDED, sid)
        os.makedirs(dst, exist_ok=True)
        for f in ("patch.diff", "demo.rs"):
            shutil.copy(os.path.join(d, f), os.path.join(dst, f))
        meta = json.load(open(os.path.join(d, "meta.json")))
        c = json.load(open(conf))
        meta["confirmed_by_framework_author"] = {
            "how": "tools/confirm_seed.py in a scratch worktree of /repo HEAD: git apply; cargo test --workspace --offline; demo installed and run with and without the change",
            "suite_with_change": c["suite_with_change"], "demo_with_change": c["demo_with_change"][-300:], "demo_without_change": c["demo_without_change"][-200:],
        }
        json.dump(meta, open(os.path.join(dst, "meta.json"), "w"), indent=1)
        print(f"{sid}: imported")


def do_run(ids, all_checks, tier, only=None):
    is_git = os.path.isdir(os.path.join(REPO, ".git")) or os.path.isfile(os.path.join(REPO, ".git"))
    if is_git and sh(f"git -C {REPO} status --porcelain --untracked-files=no")[1].strip():
        print("refusing: the repo has uncommitted changes"); sys.exit(2)
    for sid in ids:
        d = os.path.join(SEEDED, sid)
        meta = json.load(open(os.path.join(d, "meta.json")))
        target = meta.get("property", sid.split("-")[0])
        det_path = os.path.join(d, "detection.json")
        det = json.load(open(det_path)) if os.path.exists(det_path) else {}
        rc, out = sh(f"git apply {d}/patch.diff", cwd=REPO)
        if rc != 0:
            print(f"{sid}: patch does not apply: {out[-200:]}"); continue
        try:
            checks = only if only else (ALL if all_checks else [target])
            for p in checks:
                t0 = time.time()
                rc, out = sh(f"{ROOT}/bin/check {p} --tier {tier}", cwd=ROOT)
                classes = [l.strip().replace("failure class ", "") for l in out.splitlines() if l.strip().startswith("failure class")]
                first = next((l.strip() for l in out.splitlines() if l.strip().startswith("failure:")), "")
                det[p] = {"exit": rc, "caught": rc == 1 and "VIOLATION property=" in out, "classes": classes[:4], "first": first[:400], "wall_s": round(time.time() - t0, 1), "tier": tier}
                print(f"{sid} {p}: {'CAUGHT' if det[p]['caught'] else ('missed' if rc == 0 else 'exit %d' % rc)} {classes[:2]}", flush=True)
        finally:
            if is_git:
                sh(f"git -C {REPO} checkout -- . && git -C {REPO} clean -fdq src")
            else:
                sh(f"git apply -R {d}/patch.diff", cwd=REPO)
            for f in os.listdir(os.path.join(os.environ["VERIF_OUT"], "replays")) if os.path.isdir(os.path.join(os.environ["VERIF_OUT"], "replays")) else []:
                os.remove(os.path.join(os.environ["VERIF_OUT"], "replays", f))
        json.dump(det, open(det_path, "w"), indent=1)
    do_table()


def do_table():
    rows = []
    for sid in sorted(os.listdir(SEEDED)):
        d = os.path.join(SEEDED, sid)
        if not os.path.isdir(d) or not os.path.exists(os.path.join(d, "meta.json")):
            continue
        meta = json.load(open(os.path.join(d, "meta.json")))
        det = json.load(open(os.path.join(d, "detection.json"))) if os.path.exists(os.path.join(d, "detection.json")) else {}
        target = meta.get("property", sid.split("-")[0])
        caught_by = [p for p, v in sorted(det.items()) if v.get("caught")]
        missed_by = [p for p, v in sorted(det.items()) if not v.get("caught") and v.get("exit") == 0]
        t = det.get(target, {})
        rows.append((sid, target, meta.get("summary", "")[:160].replace("|", "/"), "yes" if t.get("caught") else ("NO" if t else "not run"), "; ".join(t.get("classes", [])[:2]), ", ".join(caught_by), ", ".join(missed_by)))
    with open(os.path.join(SEEDED, "RESULTS.md"), "w") as f:
        f.write("# Seeded changes (written by independent sub-agents, confirmed in scratch worktrees) vs the registered quick checks\n\n")
        f.write("| seed | property | change | caught by its property's check | failure classes | all checks that caught it | checks run that stayed silent |\n|---|---|---|---|---|---|---|\n")
        for r in rows:
            f.write("| " + " | ".join(r) + " |\n")
    print(f"{len(rows)} seeds in table")


if __name__ == "__main__":
    cmd = sys.argv[1]
    if cmd == "import":
        do_import(sys.argv[2:])
    elif cmd == "run":
        args = sys.argv[2:]
        allc = "--all-checks" in args
        tier = "quick"
        only = next((a.split("=", 1)[1].split(",") for a in args if a.startswith("--checks=")), None)
        ids = [a for a in args if not a.startswith("--")]
        do_run(ids, allc, tier, only)
    elif cmd == "table":
        do_table()
