#!/bin/bash
# zero-alarm sweep: every quick check at several VERIF_SEED values. usage: tools/seed_sweep.sh <seeds...>
# (when run through `vp run --with-repo`, builds against the snapshot of /repo's HEAD)
cd "$(dirname "$0")/.."
if [ -n "${VP_RUN_REPO:-}" ]; then sed -i "s|path = \"/repo\"|path = \"$VP_RUN_REPO\"|" sim/Cargo.toml; fi
for seed in "$@"; do
  for i in $(seq -w 1 18); do
    out=$(VERIF_SEED=$seed bin/check C$i --tier ${TIER:-quick} 2>&1)
    rc=$?
    echo "seed=$seed C$i exit=$rc $(echo "$out" | grep -E 'runs,' | cut -c1-120)"
    if [ $rc -ne 0 ]; then echo "$out" | grep -E "failure class|failure:|VIOLATION|harness" | cut -c1-400; fi
  done
done
