#!/bin/bash
# Determinism proof: per-run digests of every property's runs, computed in separate processes at
# different worker counts, must be identical. usage: tools/selfcheck.sh [runs-per-property]   (default 1000)
cd "$(dirname "$0")/.."
N=${1:-1000}
( cd sim && cargo build --release --offline >/dev/null 2>&1 ) || { echo "build failed"; exit 2; }
T=$(mktemp -d)
rc=0
for i in $(seq -w 1 18); do
  p=C$i
  sim/target/release/simctl digests $p $N 16 > $T/$p.a 2>/dev/null
  sim/target/release/simctl digests $p $N 3  > $T/$p.b 2>/dev/null
  VERIF_NO_TRACING=1 sim/target/release/simctl digests $p $N 7 > $T/$p.c 2>/dev/null
  if cmp -s $T/$p.a $T/$p.b && cmp -s $T/$p.a $T/$p.c && [ "$(wc -l < $T/$p.a)" -eq "$N" ]; then
    echo "$p deterministic: $N run digests identical across 3 processes (16 / 3 / 7 workers)"
  else
    echo "$p NONDETERMINISTIC"; rc=2
  fi
done
rm -rf "$T"
exit $rc
