#!/bin/bash
# runs every thorough check once; summary lines only. usage: tools/thorough_all.sh [ids...]
cd "$(dirname "$0")/.."
if [ -n "${VP_RUN_REPO:-}" ]; then sed -i "s|path = \"/repo\"|path = \"$VP_RUN_REPO\"|" sim/Cargo.toml; fi
ids="$@"; [ -z "$ids" ] && ids=$(seq -f "C%02g" 1 18)
for p in $ids; do
  out=$(bin/check $p --tier thorough 2>&1); rc=$?
  echo "$p exit=$rc $(echo "$out" | grep -E 'runs,' | cut -c1-140)"
  if [ $rc -ne 0 ]; then echo "$out" | grep -E "failure class|failure:|VIOLATION|harness" | cut -c1-400; fi
  python3 -c "
import json
e=json.load(open('evidence/$p.json')); c=e['coverage']; print('   tier',e['tier'],'wall',round(e['wall_s']),'cap_hit',c['wall_clock_cap_hit'],'distinct',c['distinct_nontrivial'])"
done
